#!/bin/bash
# run every registered quick (or thorough) check and summarise: tools/run_all.sh [quick|thorough] [ids...]
tier=${1:-quick}; shift
cd /verif
ids=${@:-$(/venv/bin/python -c "import json;print(' '.join(c['property_id'] for c in json.load(open('MANIFEST.json'))['checks']))")}
for id in $ids; do
  s=$(date +%s)
  out=$(/venv/bin/python -m mc.run $id --tier $tier 2>/dev/null); rc=$?
  e=$(date +%s)
  echo "$id rc=$rc $((e-s))s $(echo "$out" | grep -c '^VIOLATION') violations, $(echo "$out" | grep -c '^KNOWN-FINDING') known | $(echo "$out" | tail -1 | cut -c1-160)"
done
