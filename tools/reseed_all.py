#!/venv/bin/python
"""Re-run the stored seeded changes against the current checks: apply seeded/<name>/patch.diff to /repo,
run the property's check (quick), restore /repo, and record the verdict in seeded/<name>/meta.json.
usage: reseed_all.py [names...]"""
import json, os, subprocess, sys, time
from pathlib import Path
ROOT = Path("/verif/seeded")
via_copy = "--via-copy" in sys.argv  # pre-screen on a scratch copy of /repo/src (PYTHONPATH) while /repo must stay untouched
args = [a for a in sys.argv[1:] if not a.startswith("--")]
names = args or sorted(p.name for p in ROOT.iterdir() if (p / "patch.diff").exists())
def sh(cmd, **kw): return subprocess.run(cmd, capture_output=True, text=True, **kw)
if via_copy:
    import shutil
    missed = []
    for n in names:
        d = ROOT / n
        pid = json.loads((d / "meta.json").read_text())["property"]
        scratch = Path("/var/tmp/reseed") / n
        shutil.rmtree(scratch, ignore_errors=True)
        scratch.mkdir(parents=True)
        shutil.copytree("/repo/src", scratch / "src")
        ap = sh(["patch", "-p1", "-s", "-d", str(scratch), "-i", str(d / "patch.diff")])
        if ap.returncode != 0:
            print(f"{n}: patch does not apply: {(ap.stdout + ap.stderr)[-200:]}"); shutil.rmtree(scratch, ignore_errors=True); continue
        t0 = time.time()
        env = {**os.environ, "VERIF_NO_CONFIRM": "1", "PYTHONPATH": str(scratch / "src"), "VERIF_EVIDENCE_DIR": str(scratch / "evidence"), "VERIF_REPLAY_DIR": str(scratch / "replays")}
        (scratch / "evidence").mkdir()
        r = sh(["/venv/bin/python", "-m", "mc.run", pid, "--tier", "quick"], cwd="/verif", env=env, timeout=3600)
        sym = [l for l in r.stdout.splitlines() if "unexplained symptoms" in l]
        print(f"{n}: rc={r.returncode} {round(time.time() - t0, 1)}s {(sym[-1][:160] if sym else '')}", flush=True)
        if r.returncode != 1: missed.append(n)
        shutil.rmtree(scratch, ignore_errors=True)
    print("missed:", missed)
    sys.exit(0)
if sh(["git", "-C", "/repo", "status", "--short"]).stdout.strip():
    print("/repo is not clean"); sys.exit(2)
missed = []
for n in names:
    d = ROOT / n
    meta = json.loads((d / "meta.json").read_text())
    pid = meta["property"]
    if meta.get("superseded"):
        print(f"{n}: skipped (superseded by a later repair, see meta.json)"); continue
    ap = sh(["git", "-C", "/repo", "apply", str(d / "patch.diff")])
    if ap.returncode != 0:
        # a failed (also a half-applied 3-way) patch must not leak into the next seed's run
        sh(["git", "-C", "/repo", "reset", "-q", "--hard", "HEAD"])
        print(f"{n}: patch does not apply any more: {ap.stderr[-200:]}"); meta["reseed"] = {"applies": False}; missed.append(n); continue
    try:
        t0 = time.time()
        r = sh(["/venv/bin/python", "-m", "mc.run", pid, "--tier", "quick"], cwd="/verif", env={**os.environ, "VERIF_NO_CONFIRM": "1"}, timeout=3600)
        sym = [l for l in r.stdout.splitlines() if "unexplained symptoms" in l]
        meta["reseed"] = {"rc": r.returncode, "symptoms": sym[-1][:400] if sym else "", "wall_s": round(time.time() - t0, 1), "when": time.strftime("%Y-%m-%d %H:%M")}
        meta["detected"] = r.returncode == 1
        print(f"{n}: rc={r.returncode} {meta['reseed']['wall_s']}s {meta['reseed']['symptoms'][:160]}")
        if r.returncode != 1: missed.append(n)
    finally:
        sh(["git", "-C", "/repo", "checkout", "HEAD", "--", "."])
    (d / "meta.json").write_text(json.dumps(meta, indent=1))
sh(["git", "-C", "/verif", "checkout", "--", "evidence"])
print("missed:", missed)
print(sh(["git", "-C", "/repo", "status", "--short"]).stdout or "repo clean")
