#!/venv/bin/python
"""Regenerate MANIFEST.json from the property modules present under mc/props."""
import importlib, json, sys
from pathlib import Path
ROOT = Path(__file__).resolve().parent.parent
sys.path.insert(0, str(ROOT))
props = [json.loads(l) for l in (ROOT/'properties.jsonl').read_text().splitlines() if l.strip()]
BASE = json.load(open('/root/.vp/BASELINE.json'))
checks, na = [], []
PENDING = json.loads((ROOT/'tools'/'pending.json').read_text()) if (ROOT/'tools'/'pending.json').exists() else {}
for p in props:
    pid = p['id']
    f = ROOT/'mc'/'props'/f'{pid.lower()}.py'
    if not f.exists() or pid in PENDING:
        na.append({"property_id": pid, "reason": PENDING.get(pid, "check not built yet in this session (planned in DESIGN.md section 3); not claimed until it runs clean")})
        continue
    m = importlib.import_module(f'mc.props.{pid.lower()}')
    checks.append({
        "property_id": pid,
        "quick_cmd": f"/venv/bin/python -m mc.run {pid} --tier quick",
        "thorough_cmd": f"/venv/bin/python -m mc.run {pid} --tier thorough",
        "evidence_file": f"/verif/evidence/{pid}.json",
        "replay_cmd_template": f"/venv/bin/python -m mc.run {pid} --replay {{path}}",
        "engine": "mc",
        "level_claimed": {"category": m.LEVEL, "text": m.LEVEL_TEXT, "design_ref": f"DESIGN.md section 3, {pid}"},
        "level_note": m.LEVEL_NOTE,
        "technique": m.TECHNIQUE,
    })
man = {
    "version": 1,
    "setup_cmd": "/venv/bin/python -m mc.run --selftest",
    "hooks": {
        "guard": "MXLPY_VERIF",
        "enable": "no source hooks: every seam is public API, a documented plug-in point or a monkeypatch applied by the harness in its own process; mxlpy is an editable install of /repo/src so checks always import the working tree",
        "baseline_off_cmd": BASE["cmd"].replace("--junitxml=<file>", "--junitxml=/var/tmp/mxlpy_baseline.junit.xml"),
        "source_commits": [],
        "add_only": True,
    },
    "engines": [{
        "name": "mc", "path": "/verif/mc",
        "serves_properties": [c["property_id"] for c in checks],
        "kind_free_text": "hand-written bounded-exhaustive explorer for Python: Cartesian-product input enumeration, explicit-state BFS over operation histories on the real objects with reference models, crash-point enumeration through a file-system shim; 16-process fork pool",
    }],
    "checks": checks,
    "not_applicable": na,
    "notes": "exit 0 held / 1 VIOLATION / 2 harness error. known_findings.json lists genuine defects (open entries print KNOWN-FINDING, fixed entries suppress nothing). See DESIGN.md.",
}
(ROOT/'MANIFEST.json').write_text(json.dumps(man, indent=1))
import jsonschema
jsonschema.validate(man, json.load(open(ROOT/'schemas'/'MANIFEST.schema.json')))
print(f"MANIFEST.json: {len(checks)} checks, {len(na)} not_applicable; valid")
