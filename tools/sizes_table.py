#!/venv/bin/python
"""Print DESIGN.md's table A.1 from the evidence files (quick tier) and the recorded thorough runs
(tools/thorough_runs.txt: one summary line per check as printed by tools/run_all.sh thorough)."""
import json, re
from pathlib import Path
ROOT = Path("/verif")
th = {}
f = ROOT / "tools" / "thorough_runs.txt"
if f.exists():
    for line in f.read_text().splitlines():
        m = re.match(r"(C\d\d) rc=(\d+) (\d+)s .*?evaluations=(\d+)", line)
        if m:
            th[m.group(1)] = (int(m.group(4)), int(m.group(3)), int(m.group(2)))
print("| id | quick tier: evaluations (distinct non-trivial), wall time | state-space figures reported by the check | thorough tier: evaluations, wall time |")
print("|----|------|------|------|")
for i in range(1, 21):
    pid = f"C{i:02d}"
    ev = json.loads((ROOT / "evidence" / f"{pid}.json").read_text())
    cov = ev["coverage"]
    extra = {k: v for k, v in cov.items() if k in ("states", "transitions", "depth", "alphabet", "long_walks", "crash_states", "max_components", "large_chain_sizes", "traces_validated_against_impl")}
    ex = ", ".join(f"{k}={v}" for k, v in extra.items())
    t = th.get(pid)
    tt = f"{t[0]:,}, {t[1]} s" if t else "-"
    print(f"| {pid} | {cov['evaluations']:,} ({cov['distinct_nontrivial']:,}), {ev['wall_s']:.0f} s ({ev['tier']}) | {ex or '-'} | {tt} |")
