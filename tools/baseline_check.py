#!/venv/bin/python
"""Run the repository's test suite (parallel, for my own iterations) and compare with the
stable_pass list of /root/.vp/BASELINE.json. Usage: baseline_check.py [repo_dir] [-n N]"""
import json, subprocess, sys, tempfile, os, xml.etree.ElementTree as ET
repo = sys.argv[1] if len(sys.argv) > 1 and not sys.argv[1].startswith('-') else '/repo'
n = '12'
if '-n' in sys.argv: n = sys.argv[sys.argv.index('-n')+1]
base = json.load(open('/root/.vp/BASELINE.json'))
stable = set(base['stable_pass'])
with tempfile.TemporaryDirectory(dir='/var/tmp') as d:
    jx = os.path.join(d, 'j.xml')
    env = dict(os.environ); env.pop('MXLPY_VERIF', None)
    cmd = ['/venv/bin/python','-m','pytest','-q','-p','no:cacheprovider','--timeout=900','--continue-on-collection-errors',f'--junitxml={jx}']
    if n != '0': cmd += ['-n', n]
    p = subprocess.run(cmd, cwd=repo, env=env, capture_output=True, text=True)
    print(p.stdout.strip().splitlines()[-1] if p.stdout.strip() else p.stderr[-500:])
    passed = set()
    for tc in ET.parse(jx).getroot().iter('testcase'):
        if not any(ch.tag in ('failure','error','skipped') for ch in tc):
            passed.add(f"{tc.get('classname')}::{tc.get('name')}")
missing = sorted(stable - passed)
print(f"stable_pass={len(stable)} passed_now={len(passed)} stable_missing={len(missing)}")
for m in missing[:40]: print("  NOT PASSING:", m)
sys.exit(1 if missing else 0)
