#!/venv/bin/python
"""Apply one hand-written mutation to /repo, run checks, revert. For my own detection experiments.
usage: mutate.py <json file with list of {name, file, old, new, checks:[...]}> [names...]"""
import json, subprocess, sys, os, time
muts = json.load(open(sys.argv[1]))
want = set(sys.argv[2:])
for m in muts:
    if want and m["name"] not in want: continue
    p = os.path.join("/repo", m["file"])
    s = open(p).read()
    if s.count(m["old"]) != 1:
        print(f"{m['name']}: pattern occurs {s.count(m['old'])} times - skipped"); continue
    open(p, "w").write(s.replace(m["old"], m["new"]))
    try:
        for c in m["checks"]:
            t0 = time.time()
            r = subprocess.run(["/venv/bin/python", "-m", "mc.run", c, "--tier", m.get("tier", "quick")], cwd="/verif", capture_output=True, text=True,
                               env={**os.environ, "VERIF_NO_CONFIRM": "1"})
            sym = [l for l in r.stdout.splitlines() if "unexplained symptoms" in l]
            print(f"{m['name']:40s} {c} rc={r.returncode} {time.time()-t0:5.1f}s {sym[-1][:200] if sym else ''}")
            if r.returncode == 2: print(r.stderr[-800:])
    finally:
        subprocess.run(["git", "-C", "/repo", "checkout", "--", m["file"]])
subprocess.run(["git", "-C", "/verif", "checkout", "--", "evidence"])
print(subprocess.run(["git", "-C", "/repo", "status", "--short"], capture_output=True, text=True).stdout or "repo clean")
