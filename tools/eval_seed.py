#!/venv/bin/python
"""Confirm and evaluate one seeded property-breaking change produced in a scratch worktree.

usage: eval_seed.py <worktree> <property id> <seed name> [--checks C01,C03] [--tier quick] [--skip-suite]

1. In the scratch worktree: the demo must exit 1 with the change and 0 without it (git stash), and the
   repository's stable test list must still pass with the change.
2. The patch is applied to /repo, the named checks are run (quick tier by default), and /repo is restored.
3. Everything is stored under /verif/seeded/<seed name>/ (patch.diff, demo.py, notes.md, meta.json).
"""
import json
import os
import shutil
import subprocess
import sys
import time
from pathlib import Path

wt = Path(sys.argv[1])
pid = sys.argv[2]
name = sys.argv[3]
args = sys.argv[4:]
checks = [pid]
tier = "quick"
skip_suite = "--skip-suite" in args
# pre-screen: run the checks against the worktree's sources (PYTHONPATH) instead of patching /repo; used while a
# long sweep is reading /repo. Evidence/replays go to a scratch directory. Scores are confirmed on /repo itself
# afterwards by tools/reseed_all.py.
via_worktree = "--via-worktree" in args
if "--checks" in args:
    checks = args[args.index("--checks") + 1].split(",")
if "--tier" in args:
    tier = args[args.index("--tier") + 1]
seed = wt / "_seed"
env = {**os.environ, "PYTHONPATH": str(wt / "src")}


def sh(cmd, **kw):
    return subprocess.run(cmd, capture_output=True, text=True, **kw)


# refresh the patch from the worktree
patch = sh(["git", "-C", str(wt), "diff", "--", "src"]).stdout
if not patch.strip():
    print("no source change in worktree")
    sys.exit(2)
(seed / "patch.diff").write_text(patch)
meta = {"property": pid, "seed": name, "worktree": str(wt), "files": sorted({l[6:] for l in patch.splitlines() if l.startswith("+++ b/")})}

# 1a demo with the change
r1 = sh(["/venv/bin/python", "_seed/demo.py"], cwd=wt, env=env, timeout=1800)
meta["demo_with_change_rc"] = r1.returncode
meta["demo_with_change_tail"] = (r1.stdout + r1.stderr)[-600:]
# 1b demo without
# (git stash is shared between worktrees: revert/re-apply the patch instead)
rv = sh(["git", "-C", str(wt), "apply", "-R", str(seed / "patch.diff")])
assert rv.returncode == 0, rv.stderr
try:
    r0 = sh(["/venv/bin/python", "_seed/demo.py"], cwd=wt, env=env, timeout=1800)
finally:
    ra = sh(["git", "-C", str(wt), "apply", str(seed / "patch.diff")])
    assert ra.returncode == 0, ra.stderr
meta["demo_without_change_rc"] = r0.returncode
print(f"demo: with change rc={r1.returncode}, without rc={r0.returncode}")
# 1c suite
if not skip_suite:
    rs = sh(["/venv/bin/python", "/tmp/wt/tools/run_suite.py", str(wt), "-n", "8"], timeout=3600)
    meta["suite_tail"] = rs.stdout.strip().splitlines()[-3:]
    meta["suite_stable_missing_0"] = "stable_missing=0" in rs.stdout
    print("suite:", meta["suite_tail"][-1] if meta["suite_tail"] else rs.stderr[-200:])
valid = r1.returncode == 1 and r0.returncode == 0 and (skip_suite or meta.get("suite_stable_missing_0"))
meta["valid_seed"] = bool(valid)

# 2 run my checks against it
meta["checks"] = {}
if valid and via_worktree:
    scratch = Path("/var/tmp/evalseed") / name
    shutil.rmtree(scratch, ignore_errors=True)
    (scratch / "evidence").mkdir(parents=True)
    wenv = {**env, "VERIF_NO_CONFIRM": "1", "VERIF_EVIDENCE_DIR": str(scratch / "evidence"), "VERIF_REPLAY_DIR": str(scratch / "replays")}
    for c in checks:
        t0 = time.time()
        rc = sh(["/venv/bin/python", "-m", "mc.run", c, "--tier", tier], cwd="/verif", env=wenv, timeout=7200)
        viol = [l for l in rc.stdout.splitlines() if l.startswith("VIOLATION")]
        sym = [l for l in rc.stdout.splitlines() if "unexplained symptoms" in l]
        meta["checks"][c] = {"rc": rc.returncode, "violations": len(viol), "symptoms": sym[-1][:600] if sym else "", "wall_s": round(time.time() - t0, 1),
                             "first": next((l.strip()[:400] for l in rc.stdout.splitlines() if l.strip().startswith("symptom=")), ""), "via": "worktree"}
        print(f"check {c}: rc={rc.returncode} violations={len(viol)} {meta['checks'][c]['symptoms'][:300]}")
        if rc.returncode == 2:
            print(rc.stderr[-1500:])
    shutil.rmtree(scratch, ignore_errors=True)
elif valid:
    ap = sh(["git", "-C", "/repo", "apply", str(seed / "patch.diff")])
    if ap.returncode != 0:  # /repo may have moved on since the worktree was made
        ap = sh(["git", "-C", "/repo", "apply", "--3way", str(seed / "patch.diff")])
    if ap.returncode != 0:
        print("patch does not apply to /repo:", ap.stderr[-300:])
        meta["applies"] = False
    else:
        try:
            for c in checks:
                t0 = time.time()
                rc = sh(["/venv/bin/python", "-m", "mc.run", c, "--tier", tier], cwd="/verif", env={**os.environ, "VERIF_NO_CONFIRM": "1"}, timeout=7200)
                viol = [l for l in rc.stdout.splitlines() if l.startswith("VIOLATION")]
                sym = [l for l in rc.stdout.splitlines() if "unexplained symptoms" in l]
                meta["checks"][c] = {"rc": rc.returncode, "violations": len(viol), "symptoms": sym[-1][:600] if sym else "", "wall_s": round(time.time() - t0, 1),
                                     "first": next((l.strip()[:400] for l in rc.stdout.splitlines() if l.strip().startswith("symptom=")), "")}
                print(f"check {c}: rc={rc.returncode} violations={len(viol)} {meta['checks'][c]['symptoms'][:300]}")
                if rc.returncode == 2:
                    print(rc.stderr[-1500:])
        finally:
            sh(["git", "-C", "/repo", "checkout", "HEAD", "--", "."])
            st = sh(["git", "-C", "/repo", "status", "--short"]).stdout
            if st.strip():
                print("WARNING: /repo not clean:", st)
    # evidence files were rewritten by runs on the mutated tree: restore the committed ones
    sh(["git", "-C", "/verif", "checkout", "--", "evidence"])
meta["detected"] = any(v["rc"] == 1 for v in meta["checks"].values())

# 3 store
out = Path("/verif/seeded") / name
out.mkdir(parents=True, exist_ok=True)
shutil.copy(seed / "patch.diff", out / "patch.diff")
for f in ("demo.py", "notes.md"):
    if (seed / f).exists():
        shutil.copy(seed / f, out / f)
meta["ran"] = "demo with/without change in the scratch worktree; repository suite vs BASELINE stable list; quick checks against the patched /repo; /repo restored"
(out / "meta.json").write_text(json.dumps(meta, indent=1))
print(json.dumps({k: meta[k] for k in ("valid_seed", "detected")}, indent=0))
