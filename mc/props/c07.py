"""C07 - generated Python / TypeScript / Rust / Julia right-hand sides equal the model.

Bounded-exhaustive product of model shapes x 4 target languages; the generated code is *executed*
(CPython, node, rustc, Julia-subset evaluator) at a grid of states/times and compared with the
model's own right-hand side.
"""

from __future__ import annotations

import itertools as it
import math

from mc import lib_fns as F
from mc import runners
from mc.core import outcome

ID = "C07"
LEVEL = "exploration"
TECHNIQUE = "bounded-exhaustive enumeration of model shapes x target languages; generated programs are compiled/executed and compared with the model"
LEVEL_TEXT = (
    "Every model in the product of 10 shape features (number of variables, untouched variable, coefficient kind, "
    "derived shape incl. out-of-order and rate-dependent, parameter literal type, assignment-defined parameter, "
    "conditional / time-dependent rate, free parameters, untranslatable function) is turned into Python, TypeScript, "
    "Rust and Julia source by the real generators; the code is executed (CPython, node, rustc; Julia through a subset "
    "evaluator) at 4 states x 2 times and compared with Model.get_right_hand_side. Untranslatable functions must make "
    "generation raise."
    " Added: numeric coefficients that are not short decimals (0.4321, 0.0004, 1/3, 0, computed zero), "
    "many-digit / tiny / huge parameter values, a parameter named like a generated derivative (dx1dt), "
    "functions at the edge of the subset (refuse or compute the function's value), helpers imported inside the "
    "function, roots of squares, generate - rebind helper - generate histories. "
    ' Also: free-parameter lists that contain the parameter defined by an initial assignment, and builtin / reserved names as component names.'
)
LEVEL_NOTE = "trusted: node, rustc, CPython; the Julia-subset evaluator of mc/runners.py stands in for Julia (not installed); TypeScript annotations are stripped, not type-checked; the model's own RHS is the oracle (C01 checks it)"
RULE = (
    "case = (shape tuple, language); full product enumerated. Non-trivial = the model has a derived quantity, a "
    "non-unit coefficient, a conditional/time-dependent rate, an assignment-defined parameter, free parameters or an "
    "untouched variable; distinct = distinct (shape, language)."
)
ASSUMPTIONS = ["Julia is not installed: well-formedness/value of Julia output is decided by a Julia-subset evaluator"]

LANGS = ["py", "ts", "rs", "jl"]
SLOTS_THOROUGH = {
    "nvars": [1, 2, 3],
    "untouched": ["no", "first", "last"],
    "coef": ["one", "two", "half", "pname", "pcomp", "neg", "irr", "tiny", "third", "zero", "czero", "pname-dxdt"],
    "derived": ["none", "one", "chain", "chain-ooo", "ratedep"],
    "ptype": ["float", "int"],
    "ia": [0, 1],
    "ct": ["none", "cond", "time", "condexpr", "rootsq", "localimport"],
    "free": [0, 1, 2],
    "untr": [0, 1],
}
SLOTS_QUICK = {
    "nvars": [1, 2],
    "untouched": ["no", "first", "last"],
    "coef": ["one", "two", "half", "pname", "pcomp"],
    "derived": ["none", "chain", "chain-ooo", "ratedep"],
    "ptype": ["float", "int"],
    "ia": [0, 1],
    "ct": ["none", "cond", "time", "condexpr", "rootsq", "localimport"],
    "free": [0, 1, 2],
    "untr": [0, 1],
}
STATES = [[0.5, 2.0, 1.5, 0.25], [2.0, 0.5, 3.0, 1.0], [1.0, 1.0, 1.0, 1.0], [3.0, 0.25, 0.5, 2.0]]
TIMES = [0.0, 1.5]


def build_model(c):
    from mxlpy import Derived, InitialAssignment, Model

    m = Model()
    n = c["nvars"]
    xs = [f"x{i + 1}" for i in range(n)]
    if c["untouched"] == "first":
        m.add_variable("u", 3.0)
    for i, x in enumerate(xs):
        m.add_variable(x, 1.0 + 0.5 * i)
    if c["untouched"] == "last":
        m.add_variable("u", 3.0)
    two = 2 if c["ptype"] == "int" else 2.0
    one = 1 if c["ptype"] == "int" else 1.0
    m.add_parameters({"kin": two, "k1": 0.5, "k2": one, "kc": 1.5})
    if c.get("vals") == "hard":
        # values as they come out of a fit or a database: many digits, very small, large
        m.update_parameters({"kin": 20000001 if c["ptype"] == "int" else 2.0000001234567, "k1": 0.12345678901234,
                             "k2": 3 if c["ptype"] == "int" else 3.0e-7, "kc": 1234.5678901234})
        m.update_variables({x: 1.0e-3 * (1 + 0.123456789 * i) for i, x in enumerate(xs)})
    # influx with the coefficient under test
    coef = {
        "one": 1, "two": 2, "half": 0.5, "neg": -3, "pname": "kc",
        # measured coefficients: not a ratio of small integers, very small, a non-terminating binary fraction
        "irr": 0.4321, "tiny": 0.0004, "third": 1 / 3, "zero": 0.0, "czero": Derived(fn=F.minus_self, args=["kc"]),
        "pname-dxdt": None,
        "pcomp": Derived(fn=F.half_plus, args=["kc"]),
    }[c["coef"]]
    if c["coef"] == "pname-dxdt":
        # a parameter called like the name a generator gives to a derivative (d<variable>dt), used as a coefficient
        m.add_parameter("dx1dt", 1.5)
        coef = "dx1dt"
    m.add_reaction("r_in", F.const_in, args=["kin"], stoichiometry={xs[0]: coef})
    for i in range(n - 1):
        m.add_reaction(f"r{i + 1}", F.ma1, args=[xs[i], "k1"], stoichiometry={xs[i]: -1, xs[i + 1]: 1})
    m.add_reaction("r_out", F.ma1, args=[xs[-1], "k2"], stoichiometry={xs[-1]: -1})
    d = c["derived"]
    if d == "one":
        m.add_derived("d1", F.lin, args=["x1", "k1"])
        m.add_reaction("rd", F.ma1, args=["d1", "k1"], stoichiometry={"x1": -1})
    elif d == "chain":
        m.add_derived("d1", F.lin, args=["x1", "k1"])
        m.add_derived("d2", F.add2, args=["d1", "x1"])
        m.add_reaction("rd", F.ma1, args=["d2", "k1"], stoichiometry={"x1": -1})
    elif d == "chain-ooo":
        m.add_derived("d2", F.add2, args=["d1", "x1"])
        m.add_derived("d1", F.lin, args=["x1", "k1"])
        m.add_reaction("rd", F.ma1, args=["d2", "k1"], stoichiometry={"x1": -1})
    elif d == "ratedep":
        m.add_derived("dr", F.twice, args=["r_in"])
        m.add_reaction("rr", F.ma1, args=["dr", "k2"], stoichiometry={xs[-1]: -1})
    if c["ia"]:
        m.add_parameter("q", InitialAssignment(fn=F.init_q, args=["x1", "k1"]))
        m.add_reaction("rq", F.ma1, args=["x1", "q"], stoichiometry={"x1": -1})
    if c["ct"] == "cond":
        m.add_reaction("rc", F.cond_rate, args=["x1", "k2"], stoichiometry={"x1": -1})
    elif c["ct"] == "condexpr":
        m.add_reaction("rc", F.cond_expr, args=["x1", "k2"], stoichiometry={"x1": -1})
    elif c["ct"] == "localimport":
        m.add_reaction("rc", F.local_import_fn, args=["x1", "k2"], stoichiometry={"x1": -1})
        m.add_reaction("rc2", F.module_helper_fn, args=["x1", "k1"], stoichiometry={"x1": -1})
    elif c["ct"] == "rootsq":
        m.add_reaction("rc", F.rootsq, args=["x1", "k2"], stoichiometry={"x1": -1})
    elif c["ct"] == "time":
        m.add_reaction("rt", F.ma1_t, args=["x1", "k1", "time"], stoichiometry={"x1": -1, xs[-1]: 1} if n > 1 else {"x1": -1})
    if c["coef"] == "pname-dxdt":  # declared last: the derivative of x1 is assigned before this coefficient is read
        m.add_reaction("rz", F.ma1, args=["x1", "dx1dt"], stoichiometry={xs[-1]: "dx1dt"})
    if c["untr"] == 1:
        m.add_reaction("ru", F.loop_fn, args=["x1", "k1"], stoichiometry={"x1": -1})
    elif c["untr"]:
        m.add_reaction("ru", F.EDGE_FNS[c["untr"] - 2], args=["x1", "k1"], stoichiometry={"x1": -1})
    return m


def generate(tier):
    slots = dict(SLOTS_QUICK if tier == "quick" else SLOTS_THOROUGH)
    slots["untr"] = [0]
    keys = list(slots)
    shapes = [dict(zip(keys, combo, strict=True)) for combo in it.product(*slots.values())]
    # untranslatable function: generation must raise whatever the rest of the model looks like
    base = {"untouched": "no", "coef": "one", "ptype": "float", "ia": 0, "ct": "none", "untr": 1}
    for nvars, derived, free in it.product(slots["nvars"], slots["derived"], slots["free"]):
        shapes.append({**base, "nvars": nvars, "derived": derived, "free": free})
    # functions at the edge of the subset: refuse, or emit code with the function's value
    for untr, nvars, free in it.product(range(2, 2 + len(F.EDGE_FNS)), slots["nvars"], slots["free"]):
        shapes.append({**base, "untr": untr, "nvars": nvars, "derived": "none", "free": free})
    # the assignment-defined parameter itself as a free input
    for nvars, coef, derived, ct in it.product(slots["nvars"], ("one", "pcomp"), ("none", "chain", "ratedep"), ("none", "cond")):
        shapes.append({**base, "untr": 0, "ia": 1, "free": 3, "nvars": nvars, "coef": coef, "derived": derived, "ct": ct})
    # numeric coefficients of every kind (the quick product above carries only 1, 2 and 0.5)
    for coef, nvars, untouched, derived, free in it.product(("neg", "irr", "tiny", "third", "zero", "czero", "pname-dxdt"), (1, 2), ("no", "first"), ("none", "chain"), slots["free"]):
        sh = {**base, "untr": 0, "coef": coef, "nvars": nvars, "untouched": untouched, "derived": derived, "free": free}
        if sh not in shapes:
            shapes.append(sh)
    out = [{k: sh[k] for k in keys} for sh in shapes]
    # the same models with hard parameter / initial values
    for nvars, coef, derived, ptype, ia, free in it.product((1, 2), ("one", "pname", "pcomp"), ("none", "chain"), ("float", "int"), (0, 1), slots["free"]):
        out.append({**base, "untr": 0, "nvars": nvars, "coef": coef, "derived": derived, "ptype": ptype, "ia": ia, "free": free, "vals": "hard"})
    return out


def prepare(case):
    """Worker: build the model, generate the four programs, compute the oracle, run py and jl."""
    from mxlpy.meta import generate_model_code_jl, generate_model_code_py, generate_model_code_rs, generate_model_code_ts

    gens = {"py": generate_model_code_py, "ts": generate_model_code_ts, "rs": generate_model_code_rs, "jl": generate_model_code_jl}
    # 2: the coefficient's own parameter is an input; 3: the assignment-defined parameter q itself is an input
    free = {0: None, 1: ["k1"], 2: ["kc", "k2"], 3: ["q", "k2"]}[case["free"]]
    out = {"ok": True, "cls": "prepared", "nontrivial": False, "symptom": None, "detail": "", "gen": {}}
    m0 = build_model(case)
    var_names = m0.get_variable_names()
    calls = []
    expected = []
    for st in STATES:
        for t in TIMES:
            y = st[: len(var_names)]
            fv = [0.8, 1.7][: len(free)] if free else []
            calls.append([t, y, fv])
            mm = build_model(case)
            if free:
                mm.update_parameters(dict(zip(free, fv, strict=True)))
            try:
                rhs = mm.get_right_hand_side(dict(zip(var_names, y, strict=True)), t)
                expected.append([float(rhs[v]) for v in var_names])
            except Exception as exc:  # noqa: BLE001
                expected.append(None)
    out["calls"] = calls
    out["expected"] = expected
    out["nvars"] = len(var_names)
    for lang, g in gens.items():
        try:
            code = g(build_model(case), free_parameters=list(free) if free else None)
            out["gen"][lang] = {"code": code}
        except Exception as exc:  # noqa: BLE001
            out["gen"][lang] = {"raised": f"{type(exc).__name__}: {exc}"}
    if "code" in out["gen"]["py"]:
        out["gen"]["py"]["run"] = runners.run_python(out["gen"]["py"]["code"], calls)
    if "code" in out["gen"]["jl"]:
        out["gen"]["jl"]["run"] = runners.run_julia_subset(out["gen"]["jl"]["code"], calls)
    return out


def run_batch(job):
    items = [(i, code, calls) for i, code, calls in job["items"]]
    fn = runners.run_js_batch if job["lang"] == "ts" else runners.run_rust_batch
    res = fn(items, job["work"])
    return {"ok": True, "cls": "batch", "nontrivial": False, "symptom": None, "detail": "", "res": {str(k): v for k, v in res.items()}}


def _close(a, b):
    if math.isnan(a) and math.isnan(b):
        return True
    return abs(a - b) <= 1e-9 + 1e-9 * max(abs(a), abs(b))


def is_nontrivial(c):
    return not (c["coef"] == "one" and c["derived"] == "none" and c["ct"] == "none" and not c["ia"] and not c["free"]
                and c["untouched"] == "no" and not c["untr"])


def verdict(case, lang, prep):
    nt = is_nontrivial(case)
    g = prep["gen"][lang]
    txt = f"lang={lang} shape={case}"
    if case["untr"] > 1 and "raised" in g:
        return outcome(True, "refused", nontrivial=nt)  # edge of the subset: refusing is fine, wrong code is not
    if case["untr"] == 1:
        if "raised" in g:
            return outcome(True, "refused", nontrivial=nt)
        return outcome(False, "emitted-for-untranslatable", symptom=f"emitted-for-untranslatable:{lang}", nontrivial=nt,
                       detail=f"a function with a for-loop cannot be translated, yet code was emitted | {txt}\n{g.get('code', '')[:600]}")
    if "raised" in g:
        return outcome(False, "generation-raised", symptom=f"generation-raised:{lang}:{g['raised'].split(':')[0]}", nontrivial=nt,
                       detail=f"{g['raised']} | {txt}")
    run = g.get("run")
    if run is None:
        return outcome(False, "not-executed", symptom=f"not-executed:{lang}", nontrivial=nt, detail=txt)
    if not run["ok"]:
        return outcome(False, "ill-formed", symptom=f"ill-formed:{lang}:{run['stage']}", nontrivial=nt,
                       detail=f"{run['error'][:300]} | {txt}\n{g['code'][:900]}")
    for ci, (row, exp) in enumerate(zip(run["results"], prep["expected"], strict=True)):
        if exp is None:
            continue
        if len(row) != prep["nvars"]:
            return outcome(False, "wrong-arity", symptom=f"wrong-arity:{lang}", nontrivial=nt,
                           detail=f"{len(row)} outputs for {prep['nvars']} variables | {txt}\n{g['code'][:900]}")
        for a, b in zip(row, exp, strict=True):
            if not _close(a, b):
                return outcome(False, "wrong-value", symptom=f"wrong-value:{lang}", nontrivial=nt,
                               detail=f"call {prep['calls'][ci]}: got {row} expected {exp} | {txt}\n{g['code'][:900]}")
    return outcome(True, "equal", nontrivial=nt)


def _execute(ctx_work, preps, evaluate):
    """Batch-execute TypeScript and Rust programs; fills prep['gen'][lang]['run']."""
    jobs = []
    for lang, size in (("ts", 150), ("rs", 24)):
        items = [(i, p["gen"][lang]["code"], p["calls"]) for i, p in enumerate(preps) if "code" in p["gen"][lang]]
        for k in range(0, len(items), size):
            jobs.append({"lang": lang, "items": items[k: k + size], "work": str(ctx_work)})
    res = evaluate(jobs)
    for job, r in zip(jobs, res, strict=True):
        for i, _code, _calls in job["items"]:
            preps[i]["gen"][job["lang"]]["run"] = r["res"][str(i)]


REBIND_SRC = '''
def saturation(s, km):
    return s / (km + s)


def saturation_alt(s, km):
    return s * s / (km + s * s)


def uptake(s, vmax, km):
    return vmax * saturation(s, km)


def drain(s, k):
    return k * s
'''


def check_rebind(case):
    """History: generate code, rebind a helper the rate function calls, generate again (same process)."""
    import importlib
    import os
    import sys

    from mxlpy import Model
    from mxlpy.meta import generate_model_code_py, generate_model_code_rs, generate_model_code_ts

    from mc.core import WORK_DIR, sha12

    d = WORK_DIR / "C07" / f"rebind_{os.getpid()}"
    d.mkdir(parents=True, exist_ok=True)
    name = f"mc_c07_rebind_{sha12([case, os.getpid()])}"
    (d / f"{name}.py").write_text(REBIND_SRC)
    if str(d) not in sys.path:
        sys.path.insert(0, str(d))
    importlib.invalidate_caches()
    mod = importlib.import_module(name)

    def model():
        m = Model()
        m.add_variables({"s": 1.0, "p": 0.5}).add_parameters({"vmax": 2.0, "km": 0.5, "k": 0.75})
        m.add_reaction("v1", mod.uptake, args=["s", "vmax", "km"], stoichiometry={"s": -1, "p": 1})
        m.add_reaction("v2", mod.drain, args=["p", "k"], stoichiometry={"p": -1})
        return m

    gens = {"py": generate_model_code_py, "ts": generate_model_code_ts, "rs": generate_model_code_rs}
    calls = [[0.0, [0.5, 2.0], []], [1.5, [2.0, 0.25], []], [0.0, [3.0, 1.0], []]]
    for i, st in enumerate(case["steps"]):
        if st == "rebind":
            mod.saturation = mod.saturation_alt
            continue
        m = model()
        expected = [[float(v) for v in m.get_right_hand_side({"s": y[0], "p": y[1]}, t)] for t, y, _f in calls]
        lang = case["lang"]
        try:
            code = gens[lang](model())
        except Exception as exc:  # noqa: BLE001
            return outcome(False, "generation-raised", symptom=f"generation-raised:{lang}:{type(exc).__name__}", nontrivial=True,
                           detail=f"after steps {case['steps'][: i + 1]}: {type(exc).__name__}: {exc}")
        if lang == "py":
            run = runners.run_python(code, calls)
        elif lang == "ts":
            run = runners.run_js_batch([(0, code, calls)], str(d))[0]
        else:
            run = runners.run_rust_batch([(0, code, calls)], str(d))[0]
        if not run["ok"]:
            return outcome(False, "ill-formed", symptom=f"ill-formed:{lang}:{run['stage']}", nontrivial=True, detail=run["error"][:300])
        for row, exp in zip(run["results"], expected, strict=True):
            if len(row) != len(exp) or any(not _close(a, b) for a, b in zip(row, exp, strict=True)):
                return outcome(False, "wrong-value", symptom=f"wrong-value:{lang}:helper-rebound", nontrivial=True,
                               detail=f"after steps {case['steps'][: i + 1]}: generated {lang} gives {row}, the model {exp}\n{code[:700]}")
    return outcome(True, "equal", nontrivial=True)


def check(case):
    """Replay path / single case: case = shape + 'lang'."""
    if case.get("family") == "rebind":
        return check_rebind(case)
    from mc.core import WORK_DIR

    shape = {k: v for k, v in case.items() if k != "lang"}
    prep = prepare(shape)
    work = WORK_DIR / "C07" / "replay"
    work.mkdir(parents=True, exist_ok=True)
    _execute(work, [prep], lambda jobs: [run_batch(j) for j in jobs])
    return verdict(shape, case["lang"], prep)


# ---- known findings (input-side predicates) -------------------------------------------------


def _jl(case):
    return case.get("family") != "rebind" and case["lang"] == "jl" and case["untr"] != 1  # every program that is emitted for Julia


def _ia_free(case):
    # the assignment-defined parameter q is computed from x1 and k1; free == 1 makes k1 an input
    return case.get("family") != "rebind" and bool(case["ia"]) and case["free"] == 1 and not case["untr"]


PREDICATES = {
    "C07-julia-templates": _jl,
    "C07-ia-parameter-of-free-parameter": _ia_free,
}


def run(ctx):
    shapes = generate(ctx.tier)
    ctx.note(f"{len(shapes)} model shapes x {len(LANGS)} languages, {len(STATES) * len(TIMES)} calls each")
    preps = ctx.evaluate(shapes, check=prepare, keep=True, record=False, timeout=120)
    _execute(ctx.work, preps, lambda jobs: ctx.evaluate(jobs, check=run_batch, keep=True, record=False, timeout=900, chunk=1))
    executed = {lang: 0 for lang in LANGS}
    for shape, prep in zip(shapes, preps, strict=True):
        for lang in LANGS:
            if "run" in prep["gen"][lang]:
                executed[lang] += 1
            ctx.record({**shape, "lang": lang}, verdict(shape, lang, prep))
    # histories: generation before and after a helper function of the rate law was re-bound in its module
    hist = [{"family": "rebind", "lang": lang, "steps": steps} for lang in ("py", "ts", "rs")
            for steps in (["generate", "rebind", "generate"], ["rebind", "generate"], ["generate", "generate", "rebind", "generate"])]
    ctx.evaluate(hist, check=check_rebind, timeout=300)
    ctx.coverage_extra.update({"programs_executed": executed, "shapes": len(shapes), "languages": LANGS, "rebind_histories": len(hist)})
