"""C09 - scans equal independent runs, row-aligned, under any scheduling.

Families, each enumerated completely within its bound:
  seq      sequential scans: model x table x rows x scan kind x EVERY order of reading the lazily
           evaluated per-row views (all row permutations x both view orders) while all rows share state
  fail     a failing row (three failure mechanisms) at every position, sequential and parallel
  par      real worker pools: 7 scan kinds x worker counts {1,2,3,16} x rows fewer/equal/more than workers
  order    every completion order of 3 rows forced through the documented worker= plug-in
Oracle: one independent simulation per row on a fresh model with exactly that row's values.
"""

from __future__ import annotations

import itertools as it
import math
import os
import time

from mc.core import WORK_DIR, outcome, sha12

ID = "C09"
LEVEL = "exploration"
TECHNIQUE = "exhaustive enumeration of scan configurations x lazy read orders (sequential) and worker counts x forced completion orders (parallel) against independent per-row simulations"
LEVEL_TEXT = (
    "Sequential mode: 3 models (mass action, + derived quantities, + a parameter defined by an initial assignment over "
    "the initial values) x 3 table shapes x 1-3 rows x 4 scan kinds x every permutation of reading the rows' variables "
    "and fluxes (both view orders), plus 5-row tables. Failing rows (NaN rate, no steady state, division by zero at the "
    "initial state) at every position. Parallel mode: scan.* and mc.* (7 kinds) with 1, 2, 3 and 16 workers and rows "
    "fewer / equal / more than workers on real pebble pools, and all 6 completion orders of 3 rows forced through a "
    "sleeping wrapper around the shipped worker. Every row must equal an independent simulation of a fresh model with "
    "that row's values, under the input row's label and position; failed rows must be all-NaN placeholders."
    " Added: mc.protocol / mc.protocol_time_course, the y0= argument of every scan, a closed pair with a "
    "conserved total, models with a readout (also for failing rows), tables with the initial-value column "
    "first, integer-typed tables, 17 / 40 rows on 1, 3, 16 workers. "
    ' Also: models that were evaluated and simulated before the scan, and tables with a column for the parameter the model defines by an initial assignment (alone and next to an initial-value column).'
    " Also: the containers' combined variables / fluxes tables must hold each row's own result in the table's order; scan tables with repeated rows."
)
LEVEL_NOTE = "the OS schedule of the worker processes is not owned: completion orders are forced by delays (realised orders are measured and reported), worker counts are real; the per-row reference uses the same Simulator (C04/C15 check the Simulator itself)"
RULE = (
    "case = (family, its slot tuple); all tuples enumerated. Non-trivial = more than one row or a failing row; "
    "distinct = distinct tuples."
)
ASSUMPTIONS = ["pebble fork pools on 16 cores", "completion orders are forced with 0 / 0.25 / 0.5 s delays, not guaranteed"]

TIME_POINTS = [0.0, 0.5, 1.0, 2.0]
PROTOCOL = [(1.0, {"c": 2.0}), (1.0, {"c": 0.5})]


# ---- model functions (module level: picklable for the worker pools) --------------------------------
def f_const(c):
    return c


def f_const_q(c, q):
    return c * q / 2.0


def f_ma(s, k):
    return k * s


def f_ma_d(s, k, d):
    return k * s * d


def f_sat(k1):
    return 1.0 + k1 / (k1 + 1.0)


def f_ratio(x, y):
    return x / (x + y + 1.0)


def f_twice(x):
    return 2.0 * x


def f_div(s, k):
    return s / k


def f_sqrt_rate(s, k):
    import numpy as np

    return float(np.sqrt(np.float64(k))) * s  # NaN (no exception) for k < 0


def make_model(kind):
    from mxlpy import InitialAssignment, Model

    m = Model()
    m.add_variables({"x": 1.0, "y": 0.5})
    m.add_parameters({"c": 1.0, "k1": 1.5, "k2": 0.75})
    if kind == "cons":
        # closed pair x <-> y: the total is conserved, so every result depends on the row's start values
        m.add_readout("ro", f_ratio, args=["x", "y"])
        m.add_reaction("v1", f_ma, args=["x", "k1"], stoichiometry={"x": -1, "y": 1})
        m.add_reaction("v2", f_ma, args=["y", "k2"], stoichiometry={"y": -1, "x": 1})
        return m
    if kind == "ia":
        m.add_parameter("q", InitialAssignment(fn=f_twice, args=["x"]))
        m.add_reaction("v0", f_const_q, args=["c", "q"], stoichiometry={"x": 1})
    else:
        m.add_reaction("v0", f_const, args=["c"], stoichiometry={"x": 1})
    m.add_reaction("v1", f_ma, args=["x", "k1"], stoichiometry={"x": -1, "y": 1})
    if kind != "ma":
        # a readout: part of every row's variables view, also of a failed row's placeholder
        m.add_readout("ro", f_ratio, args=["x", "y"])
    if kind in ("derived", "ia"):
        m.add_derived("dm", f_sat, args=["k1"])
        m.add_derived("ratio", f_ratio, args=["x", "y"])
        m.add_reaction("v2", f_ma_d, args=["y", "k2", "dm"], stoichiometry={"y": -1})
    elif kind == "zerodiv":
        m.add_reaction("v2", f_div, args=["y", "k2"], stoichiometry={"y": -1})
    elif kind == "nanrate":
        m.add_reaction("v2", f_sqrt_rate, args=["y", "k2"], stoichiometry={"y": -1})
    else:
        m.add_reaction("v2", f_ma, args=["y", "k2"], stoichiometry={"y": -1})
    return m


def table(shape, nrows, fail=None):
    """Scan table as {column: values}; `fail` = (position, mechanism) plants a failing value."""
    ks = ([0.5, 1.0, 2.0, 3.0, 4.0] + [4.25 + 0.25 * i for i in range(nrows)])[:nrows]
    xs = ([0.25, 2.0, 3.0, 0.75, 1.5] + [1.6 + 0.1 * ((7 * i) % 11) for i in range(nrows)])[:nrows]
    cols = {}
    if shape in ("par", "both"):
        cols["k2"] = list(ks)
    if shape in ("init", "both", "both-rev"):
        cols["x"] = list(xs)
    if shape == "both-rev":  # initial-value column first, parameter column second
        cols["k2"] = list(ks)
    if shape in ("iapar", "iapar-both"):  # a column for the parameter that the model defines by an initial assignment
        cols["q"] = [1.0, 3.0, 0.5, 2.0, 4.0, 1.5][:nrows]
        if shape == "iapar-both":
            cols["x"] = list(xs)
    if shape == "par-dup":  # the same value in several rows (two grids glued at a shared point, a discrete sample)
        cols["k2"] = [0.5, 1.0, 0.5, 2.0, 1.0, 0.5][:nrows]
    if shape == "both-dup":
        cols["k2"] = [0.5, 1.0, 0.5, 2.0, 1.0, 0.5][:nrows]
        cols["x"] = [0.25, 2.0, 0.25, 3.0, 2.0, 0.25][:nrows]
    if shape == "par-int":  # whole numbers stored as integers (a table read from a file, range(...), ...)
        cols["k2"] = [1, 2, 3, 4, 5, 6][:nrows]
    if shape == "both-int":
        cols["x"] = [1, 2, 3, 4, 5, 6][:nrows]
        cols["k2"] = [2, 1, 3, 5, 4, 6][:nrows]
    if fail is not None:
        pos, mech = fail
        cols.setdefault("k2", list(ks))
        cols["k2"][pos] = {"zerodiv": 0.0, "nanrate": -1.0, "nosteady": 0.0}[mech]
    return cols


def run_kind(kind, model, df, **kw):
    """Call the real scan entry point. Returns (scan object, kind)."""
    import mxlpy
    import numpy as np
    from mxlpy import mc, scan

    tp = np.array(TIME_POINTS)
    proto = mxlpy.make_protocol(PROTOCOL)
    if kind == "steady_state":
        return scan.steady_state(model, to_scan=df, **kw)
    if kind == "time_course":
        return scan.time_course(model, to_scan=df, time_points=tp, **kw)
    if kind == "protocol":
        return scan.protocol(model, to_scan=df, protocol=proto, time_points_per_step=2, **kw)
    if kind == "protocol_time_course":
        return scan.protocol_time_course(model, to_scan=df, protocol=proto, time_points=np.array([0.5, 1.5, 2.0]), **kw)
    if kind == "mc.steady_state":
        return mc.steady_state(model, mc_to_scan=df, **kw)
    if kind == "mc.time_course":
        return mc.time_course(model, time_points=tp, mc_to_scan=df, **kw)
    if kind == "mc.protocol":
        return mc.protocol(model, mc_to_scan=df, protocol=proto, time_points_per_step=2, **kw)
    if kind == "mc.protocol_time_course":
        return mc.protocol_time_course(model, mc_to_scan=df, protocol=proto, time_points=np.array([0.5, 1.5, 2.0]), **kw)
    raise ValueError(kind)


# the `y0=` argument of every scan: values for variables, applied before the row's own values
Y0 = {None: None, "y": {"y": 0.7}, "xy": {"x": 9.0, "y": 0.7}}


def row_reference(model_kind, kind, row, y0=None):
    """Independent simulation of ONE row on a fresh model; returns {'variables': frame-dict, 'fluxes': ...} or None."""
    import mxlpy
    import numpy as np
    from mxlpy import Simulator

    m = make_model(model_kind)
    if y0:
        m.update_variables(dict(y0))
    m.update_variables({k: v for k, v in row.items() if k in m.get_variable_names()})
    m.update_parameters({k: v for k, v in row.items() if k in m.get_parameter_names()})
    try:
        s = Simulator(m)
        base = kind.split(".")[-1]
        if base == "steady_state":
            s.simulate_to_steady_state()
        elif base == "time_course":
            s.simulate_time_course(np.array(TIME_POINTS))
        elif base == "protocol":
            s.simulate_protocol(mxlpy.make_protocol(PROTOCOL), time_points_per_step=2)
        else:
            s.simulate_protocol_time_course(mxlpy.make_protocol(PROTOCOL), np.array([0.5, 1.5, 2.0]))
        res = s.get_result().value
    except ZeroDivisionError:
        return None
    if isinstance(res, Exception):
        return None
    v, f = res.variables, res.fluxes
    if kind.split(".")[-1] == "steady_state":
        v, f = v.iloc[[-1]], f.iloc[[-1]]
    return {"variables": v, "fluxes": f}


def _frames_equal(got, exp, what):
    import numpy as np

    if list(got.columns) != list(exp.columns):
        return f"{what}: columns {list(got.columns)} expected {list(exp.columns)}"
    if len(got) != len(exp):
        return f"{what}: {len(got)} rows expected {len(exp)}"
    a, b = got.to_numpy(dtype=float), exp.to_numpy(dtype=float)
    if not np.allclose(a, b, rtol=1e-9, atol=1e-12, equal_nan=True):
        i = np.argwhere(~np.isclose(a, b, rtol=1e-9, atol=1e-12, equal_nan=True))[0]
        return f"{what}: [{i[0]},{got.columns[i[1]]}] = {a[i[0], i[1]]} expected {b[i[0], i[1]]}"
    return None


def row_views(sc, kind, label, pos):
    """(variables, fluxes) of one row from the scan object, read lazily from the row's Simulation."""
    if kind.endswith("steady_state"):
        sim = sc.raw_results[pos]
        return (lambda: sim.variables.iloc[[-1]]), (lambda: sim.fluxes.iloc[[-1]])
    sim = sc.raw_results[label]
    return (lambda: sim.variables), (lambda: sim.fluxes)


def compare_rows(sc, kind, model_kind, df, read_order, view_first, txt, nt, expect_fail=(), y0=None):
    """Read per-row views in the given order and compare with the per-row references."""
    import numpy as np

    labels = list(df.index)
    # order / index of the returned container
    if kind.endswith("steady_state"):
        if len(sc.raw_results) != len(labels):
            return outcome(False, "misaligned", symptom="row-count-differs", nontrivial=nt, detail=f"{len(sc.raw_results)} results for {len(labels)} rows | {txt}")
        exp_index = list(df.iloc[:, 0]) if df.shape[1] == 1 else [tuple(r) for r in df.itertuples(index=False)]
        got_index = list(sc.raw_index)
        if [tuple(g) if isinstance(g, tuple) else g for g in got_index] != exp_index:
            return outcome(False, "misaligned", symptom="index-differs", nontrivial=nt, detail=f"index {got_index} expected {exp_index} | {txt}")
    else:
        if list(sc.raw_results.keys()) != labels:
            return outcome(False, "misaligned", symptom="row-order-differs", nontrivial=nt, detail=f"rows {list(sc.raw_results.keys())} expected {labels} | {txt}")
    got = {}
    for pos in read_order:
        vfn, ffn = row_views(sc, kind, labels[pos], pos)
        first, second = (("variables", vfn), ("fluxes", ffn)) if view_first == "variables" else (("fluxes", ffn), ("variables", vfn))
        for name, fn in (first, second):
            try:
                got[(pos, name)] = fn()
            except Exception as exc:  # noqa: BLE001
                return outcome(False, "view-raised", symptom=f"view-raised:{type(exc).__name__}", nontrivial=nt,
                               detail=f"reading {name} of row {pos} raised {type(exc).__name__}: {str(exc)[:150]} | {txt}")
    for pos, label in enumerate(labels):
        row = {c: float(df.iloc[pos][c]) for c in df.columns}
        ref = row_reference(model_kind, kind, row, y0)
        for name in ("variables", "fluxes"):
            g = got[(pos, name)]
            if ref is None:
                if pos not in expect_fail:
                    from mc.core import HarnessError

                    raise HarnessError(f"reference simulation failed for a row that was not planted to fail: {row} | {txt}")
                # every variable is NaN; a flux may only be a number if its rate does not depend on the
                # state at all (v0 is a constant influx): that value is still the model's value there
                check_cols = [col for col in g.columns if not (name == "fluxes" and col == "v0")]
                if not bool(np.isnan(g[check_cols].to_numpy(dtype=float)).all()):
                    return outcome(False, "placeholder", symptom="failed-row-not-nan", nontrivial=nt, detail=f"row {pos} failed but its {name} are {g.to_numpy().tolist()[:2]} | {txt}")
                exp_cols = row_reference(model_kind, kind, {c: (1.0 if c == "k2" else v) for c, v in row.items()})
                if exp_cols is not None:
                    if list(g.columns) != list(exp_cols[name].columns):
                        return outcome(False, "placeholder", symptom="placeholder-wrong-columns", nontrivial=nt, detail=f"{list(g.columns)} expected {list(exp_cols[name].columns)} | {txt}")
                    # the requested time points define the placeholder; a successful protocol run
                    # additionally reports its start and the step boundaries
                    ok_lengths = {len(exp_cols[name]), 3 if kind.endswith("protocol_time_course") else len(TIME_POINTS)}
                    if kind.split(".")[-1] in ("time_course", "protocol_time_course") and len(g) not in ok_lengths:
                        return outcome(False, "placeholder", symptom="placeholder-wrong-shape", nontrivial=nt, detail=f"{len(g)} rows expected {len(exp_cols[name])} | {txt}")
                continue
            bad = _frames_equal(g, ref[name], f"row {pos} (label {label!r}) {name}")
            if bad:
                return outcome(False, "differs", symptom=f"row-differs:{name}", nontrivial=nt, detail=f"{bad} | {txt}")
    # the container's combined tables: one block per row of the scan table, in the table's order, holding that row's values
    for name in ("variables", "fluxes"):
        if not hasattr(type(sc), name):
            continue
        try:
            agg = getattr(sc, name)
        except Exception as exc:  # noqa: BLE001
            return outcome(False, "view-raised", symptom=f"combined-view-raised:{type(exc).__name__}", nontrivial=nt, detail=f"{name}: {type(exc).__name__}: {str(exc)[:150]} | {txt}")
        if kind.endswith("steady_state"):
            if len(agg) != len(labels):
                return outcome(False, "misaligned", symptom="combined-row-count-differs", nontrivial=nt, detail=f"{name} has {len(agg)} rows for a scan table of {len(labels)} rows | {txt}")
            blocks = [agg.iloc[[pos]] for pos in range(len(labels))]
        else:
            first = list(dict.fromkeys(agg.index.get_level_values(0)))
            if first != labels:
                return outcome(False, "misaligned", symptom="combined-row-order-differs", nontrivial=nt, detail=f"{name} lists rows {first}, scan table {labels} | {txt}")
            blocks = [agg.loc[label] for label in labels]
        for pos, block in enumerate(blocks):
            g = got[(pos, name)]
            a, b = block.to_numpy(dtype=float), g.to_numpy(dtype=float)
            if list(block.columns) != list(g.columns) or a.shape != b.shape or not bool(np.array_equal(a, b, equal_nan=True)):
                return outcome(False, "differs", symptom=f"combined-row-differs:{name}", nontrivial=nt,
                               detail=f"row {pos} of the combined {name} is {a.tolist()[:2]}, that row's own result {b.tolist()[:2]} | {txt}")
    return None


def make_df(cols, labels=None):
    import pandas as pd

    df = pd.DataFrame(cols)
    if labels is not None:
        df.index = labels
    return df


# ---- families ---------------------------------------------------------------------------------------


def check_seq(c):
    df = make_df(table(c["table"], c["rows"]), labels=c.get("labels"))
    txt = f"{c}"
    nt = c["rows"] > 1
    y0 = Y0[c.get("y0")]
    kw = {"parallel": False} if not c["kind"].startswith("mc.") else {"max_workers": 1}
    if y0 is not None:
        kw["y0"] = dict(y0)
    model = make_model(c["model"])
    if c.get("warm"):
        # the model has been used before the scan (its resolved values exist): evaluated and simulated once
        from mxlpy import Simulator

        model.get_args()
        Simulator(model).simulate(0.5, steps=2).get_result()
    try:
        if c.get("prior"):
            # the same model object has been scanned before, over other columns: this scan's rows are still those of
            # the model as it was declared
            run_kind(c["prior"][0], model, make_df(table(c["prior"][1], 2)), parallel=False)
        sc = run_kind(c["kind"], model, df, **kw)
    except Exception as exc:  # noqa: BLE001
        return outcome(False, "scan-raised", symptom=f"scan-raised:{type(exc).__name__}", nontrivial=nt, detail=f"{type(exc).__name__}: {str(exc)[:200]} | {txt}")
    bad = compare_rows(sc, c["kind"], c["model"], df, c["read"], c["view_first"], txt, nt, y0=y0)
    if bad is not None and c.get("prior"):
        bad["symptom"] = "second-scan:" + bad["symptom"]
    return bad if bad is not None else outcome(True, "rows-equal", nontrivial=nt)


def check_fail(c):
    mech = c["mech"]
    model_kind = {"zerodiv": "zerodiv", "nanrate": "nanrate", "nosteady": "ma"}[mech]
    df = make_df(table("par", c["rows"], fail=(c["pos"], mech)))
    txt = f"{c}"
    kw = {"parallel": c["parallel"]} if not c["kind"].startswith("mc.") else {"max_workers": 2}
    try:
        sc = run_kind(c["kind"], make_model(model_kind), df, **kw)
    except Exception as exc:  # noqa: BLE001
        return outcome(False, "scan-raised", symptom=f"scan-raised:{type(exc).__name__}", nontrivial=True,
                       detail=f"one failing row made the whole scan raise {type(exc).__name__}: {str(exc)[:150]} | {txt}")
    bad = compare_rows(sc, c["kind"], model_kind, df, list(range(c["rows"])), "variables", txt, True, expect_fail=(c["pos"],))
    return bad if bad is not None else outcome(True, "placeholder-correct", nontrivial=True)


LABELS = {"range": None, "descending": lambda n: list(range(n - 1, -1, -1)), "shuffled": lambda n: [3, 0, 4, 1, 2][:n] if n >= 3 else [1, 0][:n],
          "strings": lambda n: ["q", "a", "z", "c", "b"][:n]}


def check_par(c):
    import multiprocessing

    lab = LABELS[c.get("labels", "range")]
    df = make_df(table(c["table"], c["rows"]), labels=lab(c["rows"]) if lab else None)
    txt = f"{c}"
    kind = c["kind"]
    old = multiprocessing.cpu_count
    try:
        if kind.startswith("mc."):
            kw = {"max_workers": c["workers"]}
        else:
            kw = {"parallel": True}
            multiprocessing.cpu_count = lambda: c["workers"]  # scan.* sizes its pool from the core count
        try:
            if kind == "mc.scan_steady_state":
                return check_mc_scan(c, df, txt)
            sc = run_kind(kind, make_model(c["model"]), df, **kw)
        except Exception as exc:  # noqa: BLE001
            return outcome(False, "scan-raised", symptom=f"scan-raised:{type(exc).__name__}", nontrivial=True, detail=f"{type(exc).__name__}: {str(exc)[:200]} | {txt}")
    finally:
        multiprocessing.cpu_count = old
    bad = compare_rows(sc, kind, c["model"], df, list(range(c["rows"])), "fluxes", txt, True)
    return bad if bad is not None else outcome(True, "rows-equal-parallel", nontrivial=True, extra={"pools": 1})


def check_mc_scan(c, df, txt):
    """mc.scan_steady_state: outer rows (mc_to_scan) x inner table (to_scan)."""
    import pandas as pd
    from mxlpy import mc

    inner = pd.DataFrame({"k1": [1.0, 2.0]})
    res = mc.scan_steady_state(make_model(c["model"]), to_scan=inner, mc_to_scan=df, max_workers=c["workers"])
    got_v, got_f = res.variables, res.fluxes
    pos = 0
    for label in df.index:
        outer = {col: float(df.loc[label, col]) for col in df.columns}
        for k1 in inner["k1"]:
            ref = row_reference(c["model"], "steady_state", {**outer, "k1": float(k1)})
            for got, name in ((got_v, "variables"), (got_f, "fluxes")):
                g = got.iloc[[pos]]
                idx = got.index[pos]
                if tuple(idx)[0] != label or not math.isclose(float(tuple(idx)[-1]), k1):
                    return outcome(False, "misaligned", symptom="index-differs", nontrivial=True, detail=f"row {pos} has index {idx}, expected ({label}, {k1}) | {txt}")
                bad = _frames_equal(g.reset_index(drop=True), ref[name].reset_index(drop=True), f"outer {label} inner k1={k1} {name}")
                if bad:
                    return outcome(False, "differs", symptom=f"row-differs:{name}", nontrivial=True, detail=f"{bad} | {txt}")
            pos += 1
    return outcome(True, "rows-equal-parallel", nontrivial=True, extra={"pools": 1})


def _delayed_tc_worker(model, time_points, y0, integrator):
    from mxlpy.scan import _time_course_worker

    k2 = model.get_parameter_values()["k2"]
    delays = {float(k): float(v) for k, v in (x.split(":") for x in os.environ["MC_C09_DELAYS"].split(","))}
    d = os.environ["MC_C09_LOG"]
    t0 = time.time()
    time.sleep(delays[float(k2)])
    out = _time_course_worker(model, time_points, y0=y0, integrator=integrator)
    with open(os.path.join(d, f"{k2}"), "w") as f:  # noqa: PTH123
        f.write(f"{t0} {time.time()}")
    return out


def _delayed_ss_worker(model, *, rel_norm, integrator, y0):
    from mxlpy.scan import _steady_state_worker

    k2 = model.get_parameter_values()["k2"]
    delays = {float(k): float(v) for k, v in (x.split(":") for x in os.environ["MC_C09_DELAYS"].split(","))}
    d = os.environ["MC_C09_LOG"]
    t0 = time.time()
    time.sleep(delays[float(k2)])
    out = _steady_state_worker(model, rel_norm=rel_norm, integrator=integrator, y0=y0)
    with open(os.path.join(d, f"{k2}"), "w") as f:  # noqa: PTH123
        f.write(f"{t0} {time.time()}")
    return out


def check_order(c):
    """Force a completion order of the 3 rows with a sleeping wrapper around the shipped worker."""
    df = make_df(table("par", 3))
    txt = f"{c}"
    ks = list(df["k2"])
    delays = dict(zip(ks, c["delays"], strict=True))
    logd = WORK_DIR / "C09" / f"log_{os.getpid()}_{sha12(c)}"
    logd.mkdir(parents=True, exist_ok=True)
    os.environ["MC_C09_DELAYS"] = ",".join(f"{k}:{v}" for k, v in delays.items())
    os.environ["MC_C09_LOG"] = str(logd)
    try:
        worker = _delayed_tc_worker if c["kind"] == "time_course" else _delayed_ss_worker
        sc = run_kind(c["kind"], make_model(c["model"]), df, parallel=True, worker=worker)
    except Exception as exc:  # noqa: BLE001
        return outcome(False, "scan-raised", symptom=f"scan-raised:{type(exc).__name__}", nontrivial=True, detail=f"{type(exc).__name__}: {str(exc)[:200]} | {txt}")
    finish = {}
    for k in ks:
        p = logd / f"{float(k)}"
        if p.exists():
            finish[k] = float(p.read_text().split()[1])
    realised = [ks.index(k) for k in sorted(finish, key=finish.get)]
    intended = [i for i, _d in sorted(enumerate(c["delays"]), key=lambda kv: kv[1])]
    import shutil

    shutil.rmtree(logd, ignore_errors=True)
    bad = compare_rows(sc, c["kind"], c["model"], df, [0, 1, 2], "variables", txt, True)
    if bad is not None:
        return bad
    return outcome(True, "rows-equal-forced-order", nontrivial=True, extra={"orders_realised_as_intended": int(realised == intended), "pools": 1})


def check(case):
    import warnings

    warnings.simplefilter("ignore")
    return {"seq": check_seq, "fail": check_fail, "par": check_par, "order": check_order}[case["family"]](case)


def generate(tier):
    cases = []
    seq_kinds = ["steady_state", "time_course", "protocol", "protocol_time_course"]
    mc_kinds_early = ["mc.steady_state", "mc.time_course"]
    for model, tbl, kind in it.product(("ia", "cons"), ("par-int", "both-int"), seq_kinds + mc_kinds_early):
        for rows in (2, 3):
            cases.append({"family": "seq", "model": model, "table": tbl, "kind": kind, "rows": rows, "read": list(range(rows)), "view_first": "variables"})
    for model, tbl, kind in it.product(("ma", "derived", "ia", "cons"), ("par", "init", "both", "both-rev"), seq_kinds):
        for rows in (1, 2, 3):
            for read in it.permutations(range(rows)):
                for vf in ("variables", "fluxes"):
                    cases.append({"family": "seq", "model": model, "table": tbl, "kind": kind, "rows": rows, "read": list(read), "view_first": vf})
        cases.append({"family": "seq", "model": model, "table": tbl, "kind": kind, "rows": 5, "read": [4, 0, 3, 1, 2], "view_first": "fluxes"})
        cases.append({"family": "seq", "model": model, "table": tbl, "kind": kind, "rows": 3, "read": [2, 0, 1], "view_first": "fluxes", "labels": ["c", "a", "b"]})
    for tbl, kind, warm in it.product(("iapar", "iapar-both"), seq_kinds + mc_kinds_early, (False, True)):
        cases.append({"family": "seq", "model": "ia", "table": tbl, "kind": kind, "rows": 3, "read": [2, 0, 1], "view_first": "variables", "warm": warm})
    # one model object scanned twice: first over initial values (or both), then over a parameter
    for model, kind, prior_tbl, prior_kind in it.product(("ia", "cons", "derived"), seq_kinds + mc_kinds_early, ("init", "both"), ("time_course", "steady_state")):
        cases.append({"family": "seq", "model": model, "table": "par", "kind": kind, "rows": 2, "read": [1, 0], "view_first": "variables", "prior": [prior_kind, prior_tbl]})
    # scan tables in which a row occurs more than once
    for tbl, kind, rows in it.product(("par-dup", "both-dup"), seq_kinds + mc_kinds_early, (3, 5)):
        cases.append({"family": "seq", "model": "cons", "table": tbl, "kind": kind, "rows": rows, "read": list(range(rows - 1, -1, -1)), "view_first": "variables"})
    # a model that was already evaluated / simulated before it is scanned
    for model, tbl, kind in it.product(("ia", "cons", "derived"), ("par", "init", "both"), seq_kinds + mc_kinds_early):
        cases.append({"family": "seq", "model": model, "table": tbl, "kind": kind, "rows": 2, "read": [1, 0], "view_first": "fluxes", "warm": True})
    # the y0= argument: applied to the model first, the row's own values on top
    mc_kinds = ["mc.steady_state", "mc.time_course", "mc.protocol", "mc.protocol_time_course"]
    for kind, tbl, y0, model in it.product(seq_kinds + mc_kinds, ("par", "init", "both"), ("y", "xy"), ("ia", "cons")):
        for read in ([0, 1], [1, 0]):
            cases.append({"family": "seq", "model": model, "table": tbl, "kind": kind, "rows": 2, "read": read, "view_first": "variables", "y0": y0})
    for kind, mech in it.product(seq_kinds + mc_kinds, ("nanrate", "nosteady", "zerodiv")):
        if mech == "nosteady" and not kind.endswith("steady_state"):
            continue
        for pos in range(3):
            modes = [False] if kind.startswith("mc.") else ([False, True] if tier == "thorough" or pos == 1 else [False])
            for parallel in modes:
                cases.append({"family": "fail", "kind": kind, "mech": mech, "pos": pos, "rows": 3, "parallel": parallel})
    par_kinds = seq_kinds + mc_kinds + ["mc.scan_steady_state"]
    workers = (1, 2, 3, 16) if tier == "quick" else tuple(range(1, 17))
    for kind, w in it.product(par_kinds, workers):
        for rows in sorted({max(1, w - 1), w, w + 2} & {1, 2, 3, 4, 5}) or [3]:
            models = ("ia",) if tier == "quick" else ("ma", "derived", "ia")
            for model in models:
                cases.append({"family": "par", "kind": kind, "workers": w, "rows": min(rows, 5), "model": model, "table": "both"})
    # row labels that are not ascending (a sorted / sampled / filtered scan table)
    for kind, labels in it.product(par_kinds, ("descending", "shuffled", "strings")):
        if kind == "mc.scan_steady_state" and labels == "strings":
            continue
        for w in (2, 16):
            cases.append({"family": "par", "kind": kind, "workers": w, "rows": 3, "model": "ia", "table": "both", "labels": labels})
    # many more rows than workers (chunk boundaries), sequentially and on pools of 3 and 16
    for kind in ("steady_state", "time_course", "protocol", "mc.time_course", "mc.steady_state"):
        for rows in (17, 40):
            if not kind.startswith("mc."):
                cases.append({"family": "seq", "model": "cons", "table": "both", "kind": kind, "rows": rows, "read": list(range(rows - 1, -1, -1)), "view_first": "fluxes"})
            for w in (3, 16):
                cases.append({"family": "par", "kind": kind, "workers": w, "rows": rows, "model": "cons", "table": "both"})
    for kind in ("time_course", "steady_state"):
        for delays in it.permutations((0.0, 0.25, 0.5)):
            cases.append({"family": "order", "kind": kind, "model": "ia", "delays": list(delays)})
    return cases


PREDICATES = {"C09-zero-division-at-initial-state": lambda c: c.get("family") == "fail" and c.get("mech") == "zerodiv"}


def run(ctx):
    cases = generate(ctx.tier)
    seq = [c for c in cases if not c["kind"].startswith("mc.") and (c["family"] == "seq" or (c["family"] == "fail" and not c.get("parallel")))]
    par = [c for c in cases if c not in seq]
    ctx.note(f"{len(seq)} sequential cases (lazy read orders, failing rows), {len(par)} cases on real worker pools")
    ctx.evaluate(seq, timeout=300)
    ctx.evaluate(par, timeout=900, procs=5, nestable=True, chunk=1)
    import shutil

    shutil.rmtree(WORK_DIR / "C09", ignore_errors=True)
