"""C10 - result views are consistent functions of states and segment parameters.

Explicit-state BFS over sequences of view reads (and parameter tampering) on real Simulation objects
with 1, 2 and 3 segments. State = (lazily filled argument tables, model parameter values); BFS runs to
a fixpoint of the canonical state set (or the depth bound). Every read is compared with the reference
evaluator applied row by row under the row's segment parameters.
"""

from __future__ import annotations

import copy
import math

from mc import expr as X
from mc.core import HarnessError, outcome, sha12
from mc.refeval import Ref

ID = "C10"
LEVEL = "model_checking"
TECHNIQUE = "explicit-state BFS over view-read/tamper sequences on real Simulation objects with state hashing; reference evaluator per row and segment"
LEVEL_TEXT = (
    "For results with 1, 2 and 3 segments (parameter changes in between) of two models - 'rich': derived parameter, "
    "derived variable of a parameter, readout, surrogate, parameter-named coefficient, coefficient computed from a "
    "parameter nothing else uses; 'lean': the same without any derived quantity that takes a parameter - every sequence "
    "of the 108 view reads and 3 tampering operations (one flips the sign of the parameter-valued coefficients) is explored breadth-first with states hashed on the lazily filled "
    "tables, the stored trajectory and the model's parameter values, to a fixpoint (reached at depth 4; cap 6 quick / "
    "10 thorough). Every returned table is compared with the reference evaluator at each row's state, "
    "time and segment parameters; N.v = dx/dt; stacked = per-segment; producers/consumers; three normalisation shapes."
    " Also: reactions with zero and with state-dependent coefficients, the rule that a view leaves the model's parameter values unchanged, and a 'live' family: results taken from a running Simulator after each of 2-4 segments while the simulation continues - every earlier result must remain the function of its own segments."
    ' Also: live simulators whose parameter starts out defined by an initial assignment and is given numbers for later segments.'
)
LEVEL_NOTE = "trusted: mc/refeval.py; states are taken from the stored trajectory (C04 checks the trajectory itself); canonical key = digest of raw_args + model parameter values, which is all the mutable state the views read"
RULE = (
    "transition = (model variant, number of segments, canonical state, operation); BFS with state hashing. Non-trivial = the result "
    "has >= 2 segments or the read happens after at least one earlier operation; distinct = distinct (result, state key, op)."
)
ASSUMPTIONS = [
    "coefficients whose sign changes between segments are outside the explored set",
    "scaled producers/consumers may use either sign convention as long as it is uniform",
]

N, V = X.name, X.num
SEG_PARAMS = [
    {"k1": 1.0, "k2": 0.5, "n": 2.0, "c": 1.0, "m": 1.0},
    {"k1": 2.0, "k2": 0.5, "n": 3.0, "c": 1.0, "m": 1.5},
    {"k1": 2.0, "k2": 1.0, "n": 3.0, "c": 0.5, "m": 2.0},
    {"k1": 1.0, "k2": 0.5, "n": 2.0, "c": 1.0, "m": 1.0},  # thorough tier: back to the first segment's values
]
# the third one flips the sign of both parameter-valued coefficients: what produced y during the simulation would consume it now
TAMPER = [{"k1": 9.0, "n": 7.0, "c": 3.0}, {"k2": 4.0, "n": 0.25, "m": 5.0}, {"n": -2.0, "m": -1.5}]


# model variants: "rich" has a derived parameter and a derived variable that take parameters (every parameter update
# re-resolves something); "lean" has none, so that a parameter reaches the reported numbers only through rates and
# coefficients
VARIANTS = ("rich", "lean")
VARIANT = "rich"


def set_variant(v):
    global VARIANT
    VARIANT = v


def make_spec(p, ia=False):
    spec = _make_spec(p)
    if ia:
        # k1 is defined by an initial assignment that resolves to the same number (x starts at 1.0): a later
        # update_parameters replaces the assignment by a number, the earlier segments were run with the assignment
        for d in spec["decl"]:
            if d["kind"] == "parameter" and d["name"] == "k1":
                d.pop("value")
                d["ia"] = {"args": ["x"], "expr": ["mul", V(p["k1"]), N("x")]}
    return spec


def _make_spec(p):
    if VARIANT == "lean":
        return {
            "decl": [
                {"kind": "variable", "name": "x", "value": 1.0},
                {"kind": "variable", "name": "y", "value": 0.5},
                {"kind": "parameter", "name": "k1", "value": p["k1"]},
                {"kind": "parameter", "name": "k2", "value": p["k2"]},
                {"kind": "parameter", "name": "n", "value": p["n"]},
                {"kind": "parameter", "name": "c", "value": p["c"]},
                {"kind": "parameter", "name": "m", "value": p["m"]},
                {"kind": "derived", "name": "dv", "args": ["x"], "expr": ["mul", N("x"), V(0.5)]},
                {"kind": "reaction", "name": "v0", "args": ["c", "time"], "expr": ["mul", N("c"), ["add", V(1.0), ["mul", V(0.1), N("time")]]], "stoich": {"x": 1}},
                {"kind": "reaction", "name": "v1", "args": ["k1", "x"], "expr": ["mul", N("k1"), N("x")], "stoich": {"x": -1, "y": "n"}},
                {"kind": "reaction", "name": "v2", "args": ["k2", "y", "dv"], "expr": ["add", ["mul", N("k2"), N("y")], ["mul", V(0.1), N("dv")]],
                 "stoich": {"y": {"args": ["m"], "expr": ["mul", V(-1.0), N("m")]}}},
                {"kind": "reaction", "name": "vs", "args": ["y"], "expr": ["mul", V(0.1), N("y")],
                 "stoich": {"x": {"args": ["y"], "expr": ["mul", V(0.5), N("y")]}}},
                {"kind": "reaction", "name": "vz", "args": ["k2", "x"], "expr": ["mul", N("k2"), N("x")],
                 "stoich": {"x": 0.0, "y": {"args": ["m"], "expr": ["sub", N("m"), N("m")]}}},
                {"kind": "surrogate", "name": "s", "args": ["x"], "outputs": ["sf", "sv"],
                 "exprs": [["mul", V(0.1), N("x")], ["add", N("x"), V(1.0)]], "stoich": {"sf": {"y": -0.5}}},
                {"kind": "readout", "name": "ro", "args": ["x", "y"], "expr": ["div", N("x"), ["add", N("x"), N("y")]]},
            ]
        }
    return {
        "decl": [
            {"kind": "variable", "name": "x", "value": 1.0},
            {"kind": "variable", "name": "y", "value": 0.5},
            {"kind": "parameter", "name": "k1", "value": p["k1"]},
            {"kind": "parameter", "name": "k2", "value": p["k2"]},
            {"kind": "parameter", "name": "n", "value": p["n"]},
            {"kind": "parameter", "name": "c", "value": p["c"]},
            # m is used by nothing but a computed stoichiometric coefficient
            {"kind": "parameter", "name": "m", "value": p["m"]},
            {"kind": "derived", "name": "dp", "args": ["k1", "k2"], "expr": ["add", N("k1"), N("k2")]},
            {"kind": "derived", "name": "dv", "args": ["x", "k2"], "expr": ["mul", N("x"), N("k2")]},
            {"kind": "reaction", "name": "v0", "args": ["c", "time"], "expr": ["mul", N("c"), ["add", V(1.0), ["mul", V(0.1), N("time")]]], "stoich": {"x": 1}},
            {"kind": "reaction", "name": "v1", "args": ["k1", "x"], "expr": ["mul", N("k1"), N("x")], "stoich": {"x": -1, "y": "n"}},
            {"kind": "reaction", "name": "v2", "args": ["dp", "y", "dv"], "expr": ["add", ["mul", N("dp"), N("y")], ["mul", V(0.1), N("dv")]],
             "stoich": {"y": {"args": ["m"], "expr": ["mul", V(-1.0), N("m")]}}},
            {"kind": "reaction", "name": "vs", "args": ["y"], "expr": ["mul", V(0.1), N("y")],
             "stoich": {"x": {"args": ["y"], "expr": ["mul", V(0.5), N("y")]}}},
            {"kind": "reaction", "name": "vz", "args": ["k2", "x"], "expr": ["mul", N("k2"), N("x")],
             "stoich": {"x": 0.0, "y": {"args": ["m"], "expr": ["sub", N("m"), N("m")]}}},
            {"kind": "surrogate", "name": "s", "args": ["x"], "outputs": ["sf", "sv"],
             "exprs": [["mul", V(0.1), N("x")], ["add", N("x"), V(1.0)]], "stoich": {"sf": {"y": -0.5}}},
            {"kind": "readout", "name": "ro", "args": ["x", "y"], "expr": ["div", N("x"), ["add", N("x"), N("y")]]},
        ]
    }


VARS = ["x", "y"]
FLUXES = ["v0", "v1", "v2", "vs", "vz", "sf"]
RXNS = ["v0", "v1", "v2", "vs", "vz"]  # vs: a coefficient that depends on the state (0.5 * y, always positive)  # vz: coefficients that are exactly zero (a literal 0 and a computed m - m)

_PRISTINE = {}


def pristine(nseg):
    """(raw_variables, raw_parameters) produced once per process by a real Simulator."""
    if (VARIANT, nseg) not in _PRISTINE:
        from mxlpy import Simulator

        from mc.spec import build

        m = build(make_spec(SEG_PARAMS[0]))
        s = Simulator(m)
        t = 0.0
        for i in range(nseg):
            if i > 0:
                s.update_parameters(SEG_PARAMS[i])
            t += 1.0
            s.simulate(t, steps=3)
        res = s.get_result().unwrap_or_err()
        _PRISTINE[(VARIANT, nseg)] = ([f.copy() for f in res.raw_variables], [dict(p) for p in res.raw_parameters])
    return _PRISTINE[(VARIANT, nseg)]


def fresh_simulation(nseg):
    from mxlpy import Simulation

    from mc.spec import build

    rv, rp = pristine(nseg)
    m = build(make_spec(SEG_PARAMS[nseg - 1]))  # the simulator leaves the model at the last segment's values
    return Simulation(model=m, raw_variables=[f.copy() for f in rv], raw_parameters=[dict(p) for p in rp])


_EXPECT = {}


def expected(nseg):
    """Per segment: list of (time, all-values dict, rhs dict) under that segment's parameters."""
    if (VARIANT, nseg) not in _EXPECT:
        rv, rp = pristine(nseg)
        segs = []
        for i, f in enumerate(rv):
            for n in ("k1", "k2", "n", "c", "m"):
                if abs(rp[i][n] - SEG_PARAMS[i][n]) > 0:
                    raise HarnessError(f"stored parameters of segment {i} are {rp[i]}, expected {SEG_PARAMS[i]} (C04 territory)")
            ref = Ref(make_spec(SEG_PARAMS[i]))
            rows = []
            for t, row in f.iterrows():
                st = {v: float(row[v]) for v in VARS}
                rows.append((float(t), ref.all_values(st, float(t), readouts=True), ref.rhs(st, float(t))))
            segs.append(rows)
        _EXPECT[(VARIANT, nseg)] = segs
    return _EXPECT[(VARIANT, nseg)]


def _per_row_factors(nseg):
    rv, _ = pristine(nseg)
    total = sum(len(f) for f in rv)
    return [1.0 + 0.5 * i for i in range(total)]


def _per_seg_factors(nseg):
    return [2.0 + i for i in range(nseg)]


# view: (name, reader(sim, nseg) -> object, kind, columns|None, normalise kind, source)
def _views():
    """Product of view methods x normalisation shapes x concatenated / split."""
    allcols = VARS + ["k1", "k2", "n", "c", "m", "dv", "dp"] + RXNS + ["sv", "sf", "ro"]
    full = VARS + ["dv", "sv", "ro"]
    views = [
        ("variables", lambda s, n: s.variables, "cat", full, None, "vals"),
        ("fluxes", lambda s, n: s.fluxes, "cat", FLUXES, None, "vals"),
        ("get_combined", lambda s, n: s.get_combined(), "cat", full + FLUXES, None, "vals"),
        ("get_new_y0", lambda s, n: s.get_new_y0(), "y0", VARS, None, "vals"),
    ]
    methods = [
        ("get_variables(raw)", lambda s, **kw: s.get_variables(include_derived_variables=False, include_readouts=False, include_surrogate_variables=False, **kw), VARS, "vals"),
        ("get_variables(full)", lambda s, **kw: s.get_variables(**kw), full, "vals"),
        ("get_variables(derived-only)", lambda s, **kw: s.get_variables(include_readouts=False, include_surrogate_variables=False, **kw), VARS + ["dv"], "vals"),
        ("get_args()", lambda s, **kw: s.get_args(**kw), VARS + ["dv"] + RXNS, "vals"),
        ("get_args(all)", lambda s, **kw: s.get_args(include_parameters=True, include_derived_parameters=True, include_readouts=True,
                                                      include_surrogate_variables=True, include_surrogate_fluxes=True, **kw), allcols, "vals"),
        ("get_fluxes()", lambda s, **kw: s.get_fluxes(**kw), FLUXES, "vals"),
        ("get_fluxes(no-surrogates)", lambda s, **kw: s.get_fluxes(include_surrogates=False, **kw), RXNS, "vals"),
        ("get_right_hand_side", lambda s, **kw: s.get_right_hand_side(**kw), VARS, "rhs"),
        ("get_producers(y)", lambda s, **kw: s.get_producers("y", **kw), ["v1"], "vals"),
        ("get_producers(y,scaled)", lambda s, **kw: s.get_producers("y", scaled=True, **kw), ["v1"], "scaled"),
        ("get_consumers(y)", lambda s, **kw: s.get_consumers("y", **kw), ["v2", "sf"], "vals"),
        ("get_consumers(y,scaled)", lambda s, **kw: s.get_consumers("y", scaled=True, **kw), ["v2", "sf"], "scaled"),
        ("get_producers(x)", lambda s, **kw: s.get_producers("x", **kw), ["v0", "vs"], "vals"),
    ]
    norms = {None: lambda n: None, "scalar": lambda n: 2.0, "segment": _per_seg_factors, "row": _per_row_factors}
    for mname, fn, cols, source in methods:
        for norm, nf in norms.items():
            for cat in (True, False):
                def reader(s, n, _fn=fn, _nf=nf, _cat=cat):
                    return _fn(s, normalise=_nf(n), concatenated=_cat)

                views.append((f"{mname}[norm={norm},{'cat' if cat else 'split'}]", reader, "cat" if cat else "split", cols, norm, source))
    return views


VIEWS = _views()
OPS = [v[0] for v in VIEWS] + [f"TAMPER{i}" for i in range(len(TAMPER))]
COEF = {"v1": lambda p: p["n"], "v2": lambda p: p["m"], "sf": lambda p: 0.5, "v0": lambda p: 1.0}


def _close(a, b):
    if isinstance(a, float) and math.isnan(a) and isinstance(b, float) and math.isnan(b):
        return True
    return abs(a - b) <= 1e-9 + 1e-9 * max(abs(a), abs(b))


def check_view(view, obj, nseg):
    """Compare one returned object with the reference. Returns (symptom, detail) or None."""
    import pandas as pd

    name, _reader, kind, cols, norm, source = view
    if VARIANT == "lean" and cols is not None:
        cols = [c for c in cols if c != "dp"]
    exp = expected(nseg)
    row_f = _per_row_factors(nseg)
    seg_f = _per_seg_factors(nseg)
    if kind == "y0":
        last_t, vals, _ = exp[-1][-1]
        if set(obj) != set(cols):
            return "wrong-columns", f"{name}: keys {sorted(obj)}"
        for c in cols:
            if not _close(float(obj[c]), vals[c]):
                return "wrong-value", f"{name}[{c}]={obj[c]} expected {vals[c]}"
        return None
    if kind == "cat":
        if not isinstance(obj, pd.DataFrame):
            return "wrong-type", f"{name}: {type(obj).__name__}"
        frames = []
        pos = 0
        for rows in exp:
            frames.append(obj.iloc[pos: pos + len(rows)])
            pos += len(rows)
        if pos != len(obj):
            return "not-stacked", f"{name}: {len(obj)} rows, segments have {pos}"
    else:
        if not isinstance(obj, list) or len(obj) != len(exp):
            return "wrong-type", f"{name}: expected a list of {len(exp)} frames, got {type(obj).__name__} of {len(obj) if hasattr(obj, '__len__') else '?'}"
        frames = obj
    ri = 0
    sign = None
    for si, (rows, fr) in enumerate(zip(exp, frames, strict=True)):
        if len(fr) != len(rows):
            return "not-stacked", f"{name}: segment {si} has {len(fr)} rows expected {len(rows)}"
        if set(fr.columns) != set(cols):
            return "wrong-columns", f"{name}: columns {list(fr.columns)} expected {cols}"
        for (t, vals, rhs), (idx, got) in zip(rows, fr.iterrows(), strict=True):
            if float(idx) != t:
                return "wrong-index", f"{name}: row label {idx} expected {t}"
            div = 1.0
            if norm == "scalar":
                div = 2.0
            elif norm == "segment":
                div = seg_f[si]
            elif norm == "row":
                div = row_f[ri]
            for c in cols:
                if source == "rhs":
                    e = rhs[c]
                elif source == "scaled":
                    e = vals[c] * COEF[c](SEG_PARAMS[si])
                else:
                    e = vals[c]
                e = e / div
                g = float(got[c])
                if source == "scaled":
                    # either sign convention, but the same for every row and segment
                    if _close(g, e):
                        sg = 1
                    elif _close(g, -e):
                        sg = -1
                    else:
                        return "wrong-value", f"{name}[t={t},{c}]={g} expected +-{e} (segment {si})"
                    if abs(e) > 1e-12:
                        if sign is None:
                            sign = sg
                        elif sign != sg:
                            return "sign-convention-changes", f"{name}: sign differs between rows"
                elif not _close(g, e):
                    return "wrong-value", f"{name}[t={t},{c}]={g} expected {e} (segment {si}, parameters {SEG_PARAMS[si]})"
            ri += 1
    return None


def state_key(sim):
    import numpy as np

    args = [[list(f.columns), [float(i) for i in f.index], np.asarray(f.to_numpy(), dtype=float).round(12).tolist()] for f in sim.raw_args]
    try:
        pv = sorted(sim.model.get_parameter_values().items())
    except Exception as exc:  # noqa: BLE001
        pv = f"EXC {type(exc).__name__}"
    # the stored trajectory and segment parameters are part of the state too: a view that modified them in
    # place must not be merged with the untouched state
    raw = [[list(f.columns), [float(i) for i in f.index], np.asarray(f.to_numpy(), dtype=float).round(12).tolist()] for f in sim.raw_variables]
    rp = [sorted((k, float(v)) for k, v in p.items()) for p in sim.raw_parameters]
    return sha12({"args": args, "params": pv, "raw_variables": raw, "raw_parameters": rp})


def apply_op(sim, nseg, oi):
    """Returns (kind, payload): ('view', object) | ('tamper', None) | ('exc', text)."""
    if oi >= len(VIEWS):
        sim.model.update_parameters(TAMPER[oi - len(VIEWS)])
        return "tamper", None
    try:
        return "view", VIEWS[oi][1](sim, nseg)
    except Exception as exc:  # noqa: BLE001
        import traceback

        tb = traceback.extract_tb(exc.__traceback__)
        where = next((fr.name for fr in reversed(tb) if "/mxlpy/" in fr.filename), "?")
        return "exc", f"{type(exc).__name__}: {exc} (in {where})"


LIVE_VIEWS = ["variables", "fluxes", "get_right_hand_side[norm=None,cat]", "get_producers(y,scaled)[norm=None,cat]", "get_args(all)[norm=None,split]"]


def check_live(case):
    """A live Simulator: after every segment its result is fetched and one view is read, then the simulation goes on.
    Every result must cover all segments so far - also when an earlier result has been looked at."""
    from mxlpy import Simulator

    from mc.spec import build

    set_variant(case["variant"])
    sim = Simulator(build(make_spec(SEG_PARAMS[0], ia=bool(case.get("ia")))))
    t = 0.0
    txt = f"{case}"
    for seg, vname in enumerate(case["views"], start=1):
        if seg > 1:
            sim.update_parameters(SEG_PARAMS[seg - 1])
        t += 1.0
        sim.simulate(t, steps=3)
        res = sim.get_result().unwrap_or_err()
        view = VIEWS[OPS.index(vname)]
        try:
            obj = view[1](res, seg)
        except Exception as exc:  # noqa: BLE001
            return outcome(False, "view-raised", symptom=f"live:exception:{type(exc).__name__}", nontrivial=True,
                           detail=f"after segment {seg}: reading {vname} raised {type(exc).__name__}: {str(exc)[:200]} | {txt}")
        bad = check_view(view, obj, seg)
        if bad is not None:
            return outcome(False, bad[0], symptom=f"live:{bad[0]}:{vname.split('[')[0]}", nontrivial=True, detail=f"after segment {seg}: {bad[1]} | {txt}")
    return outcome(True, "live-views-equal", nontrivial=True)


def check(case):
    if case.get("family") == "live":
        return check_live(case)
    nseg, hist, oi = case["nseg"], case["hist"], case["op"]
    set_variant(case.get("variant", "rich"))
    sim = fresh_simulation(nseg)
    for h in hist:
        apply_op(sim, nseg, h)
    if case.get("key") is not None and state_key(sim) != case["key"]:
        raise HarnessError(f"replay of prefix {hist} did not reproduce state {case['key']}")
    try:
        params_before = sorted(sim.model.get_parameter_values().items())
    except Exception:  # noqa: BLE001
        params_before = None
    kind, payload = apply_op(sim, nseg, oi)
    nontrivial = nseg >= 2 or bool(hist)
    txt = f"model={VARIANT} segments={nseg} history={[OPS[h] for h in hist]} op={OPS[oi]}"
    new = {"newkey": state_key(sim)}
    if kind == "exc":
        o = outcome(False, "view-raised", symptom=f"exception:{payload.split(':')[0]}:{OPS[oi].split('(')[0]}", nontrivial=nontrivial, detail=f"{payload} | {txt}")
        o.update(new, expanded=False)
        return o
    if kind == "view" and params_before is not None:
        # a view is a read: the model (shared with the simulator) keeps the parameter values it had
        try:
            params_after = sorted(sim.model.get_parameter_values().items())
        except Exception:  # noqa: BLE001
            params_after = None
        if params_after != params_before:
            o = outcome(False, "view-changed-model", symptom=f"view-changed-model-parameters:{OPS[oi].split('[')[0]}", nontrivial=nontrivial,
                        detail=f"model parameters before the read {params_before} after {params_after} | {txt}")
            o.update(new, expanded=False)
            return o
    if kind == "view":
        bad = check_view(VIEWS[oi], payload, nseg)
        if bad is not None:
            o = outcome(False, bad[0], symptom=f"{bad[0]}:{OPS[oi]}", nontrivial=nontrivial, detail=f"{bad[1]} | {txt}")
            o.update(new, expanded=False)
            return o
    o = outcome(True, "view-equal" if kind == "view" else "tampered", nontrivial=nontrivial)
    o.update(new, expanded=True)
    return o


def _per_row_norm(case):
    return "per-row" in OPS[case["op"]]


def describe(case):
    if case.get("family") == "live":
        return case
    return {"model": case.get("variant", "rich"), "segments": case["nseg"], "history": [OPS[i] for i in case["hist"]], "operation": OPS[case["op"]]}


PREDICATES = {}


def run(ctx):
    depth = 6 if ctx.tier == "quick" else 10
    seen = {}
    frontier = []
    for variant in VARIANTS:
        set_variant(variant)
        for nseg in (1, 2, 3) if ctx.tier == "quick" else (1, 2, 3, 4):
            expected(nseg)  # computed once in the parent, inherited by the forked workers
            k = state_key(fresh_simulation(nseg))
            seen[(variant, nseg, k)] = []
            frontier.append((variant, nseg, [], k))
    transitions = 0
    fix = False
    for d in range(1, depth + 1):
        cases = [{"variant": v, "nseg": n, "hist": h, "op": oi, "key": k} for (v, n, h, k) in frontier for oi in range(len(OPS))]
        res = ctx.evaluate(cases, keep=True, timeout=120)
        transitions += len(cases)
        nxt = []
        for c, r in zip(cases, res, strict=True):
            if not r.get("expanded"):
                continue
            key = (c["variant"], c["nseg"], r["newkey"])
            if key not in seen:
                seen[key] = c["hist"] + [c["op"]]
                nxt.append((c["variant"], c["nseg"], c["hist"] + [c["op"]], r["newkey"]))
        ctx.note(f"depth {d}: {len(cases)} transitions, {len(nxt)} new states, {len(seen)} states total")
        frontier = nxt
        if not frontier:
            fix = True
            ctx.note(f"fixpoint reached at depth {d}: every longer sequence revisits a known state")
            break
    import itertools as _it

    live = [{"family": "live", "variant": v, "views": list(vs)} for v in VARIANTS for vs in _it.product(LIVE_VIEWS, repeat=3)]
    # the same with a parameter that starts out defined by an initial assignment and is given numbers later
    live += [{"family": "live", "variant": v, "views": list(vs), "ia": True} for v in VARIANTS for vs in _it.product(LIVE_VIEWS, repeat=3)]
    ctx.evaluate(live, timeout=120)
    ctx.note(f"{len(live)} live simulators: a view read after each of 3 segments")
    ctx.coverage_extra.update({"states": len(seen), "live_simulators": len(live), "transitions": transitions, "traces_validated_against_impl": transitions,
                               "depth": depth, "fixpoint": fix, "alphabet": len(OPS)})
