"""C11 - model -> generated MxlPy source -> model preserves behaviour, or generation fails.

Product of model shapes (shared with C07) x function-assignment patterns (own function per
component, one function with several argument lists incl. permuted and repeated arguments, distinct
functions sharing a name, arguments named like the function's own parameters in another order,
initial assignments, units, untranslatable functions). The generated source is executed and the
rebuilt model compared with the original.
"""

from __future__ import annotations

import itertools as it
import math

from mc import lib_fns as F
from mc import lib_fns2 as F2
from mc.core import outcome
from mc.props import c07

ID = "C11"
LEVEL = "exploration"
TECHNIQUE = "bounded-exhaustive enumeration of model shapes x function-sharing patterns; generated MxlPy source is executed and the rebuilt model compared with the original"
LEVEL_TEXT = (
    "Every model in the product of structural shapes (number of variables, 6 coefficient kinds, 5 derived shapes, "
    "initial-assignment parameter, conditional/time-dependent rates) x 23 function-assignment patterns (incl. many-digit, very small and large literal values) is passed to "
    "generate_mxlpy_code; the source is exec'd, create_model() called, and names/kinds, initial values, parameter "
    "values and (at 4 states x 2 times) derived values, fluxes and derivatives are compared with the original "
    "(rtol 1e-12; printed literals carry 15 digits). Untranslatable functions must make generation raise."
    ' Also: every rebuilt model is generated and rebuilt a second time, several models are generated into ONE module file in one process (session family), and the patterns include helpers imported locally, names the generator uses itself, ignored parameters, repeated arguments and tuple displays with an untranslatable element.'
    ' Also: rate functions with positional-only / defaulted parameters; two different functions of one name behind initial assignments; conditional test rates whose branches differ at the boundary.'
)
LEVEL_NOTE = "trusted: CPython exec of the generated module; the original model is the oracle"
RULE = (
    "case = (structural shape, function-assignment pattern); product enumerated completely. Non-trivial = the pattern "
    "is not 'own' or the shape has a derived quantity / non-unit coefficient / conditional; distinct = distinct tuples."
)
ASSUMPTIONS = ["surrogate-free models; functions come from two library modules with real source files"]

SHAPES_QUICK = {
    "nvars": [1, 2],
    "coef": ["one", "two", "half", "pname", "pcomp"],
    "derived": ["none", "one", "chain-ooo", "ratedep"],
    "ia": [0, 1],
    "ct": ["none", "cond", "condexpr", "time", "rootsq"],
}
SHAPES_THOROUGH = {
    "nvars": [1, 2, 3],
    "coef": ["one", "two", "half", "neg", "pname", "pcomp"],
    "derived": ["none", "one", "chain", "chain-ooo", "ratedep"],
    "ia": [0, 1],
    "ct": ["none", "cond", "condexpr", "time", "rootsq"],
}
PATTERNS = [
    "own", "permuted-args", "repeated-arg-first", "repeated-arg-last", "same-name-first", "same-name-last",
    "same-name-derived", "own-parameter-names-swapped", "shared-ia-and-derived", "ia-variable", "unit-variable",
    "unit-parameter", "locals-and-conditionals", "untranslatable", "same-name-coinciding-specialisation",
    "repeated-arg-same-specialisation", "hard-literals", "repeated-arg-name-clash", "ignored-param-repeated-last",
    "ignored-param-repeated-first", "local-import-shadows-module-helper", "generator-internal-names", "edge-tuple-untranslatable",
    "edge-signature-variants", "same-name-initial-assignments-first", "same-name-initial-assignments-last",
]
EDGE_PATTERNS = {"edge-tuple-untranslatable", "edge-signature-variants"}  # generation may refuse these; whatever it emits must compute the function's value
STATES = c07.STATES
TIMES = c07.TIMES


def build_model(case):
    from mxlpy import InitialAssignment, units

    shape = {"untouched": "no", "ptype": "float", "free": 0, "untr": 0, **{k: case[k] for k in ("nvars", "coef", "derived", "ia", "ct")}}
    p = case["pattern"]
    if p == "hard-literals":  # many-digit, very small and large parameter / initial values (and an integer-typed one)
        shape["vals"] = "hard"
        shape["ptype"] = "int" if case["nvars"] % 2 == 0 else "float"
    m = c07.build_model(shape)
    if p == "permuted-args":
        m.add_derived("s1", F.sub2, args=["x1", "k1"])
        m.add_derived("s2", F.sub2, args=["k1", "x1"])
        m.add_reaction("rs", F.add2, args=["s1", "s2"], stoichiometry={"x1": -1})
        m.add_reaction("rs2", F.ma1, args=["s1", "k2"], stoichiometry={"x1": -1})
    elif p == "repeated-arg-first":
        m.add_derived("s1", F.mul2, args=["x1", "x1"])
        m.add_derived("s2", F.mul2, args=["x1", "k1"])
        m.add_reaction("rs", F.add2, args=["s1", "s2"], stoichiometry={"x1": -1})
    elif p == "repeated-arg-last":
        m.add_derived("s2", F.mul2, args=["x1", "k1"])
        m.add_derived("s1", F.mul2, args=["x1", "x1"])
        m.add_reaction("rs", F.add2, args=["s1", "s2"], stoichiometry={"x1": -1})
    elif p == "same-name-first":
        m.add_reaction("rs", F2.ma1, args=["x1", "k2"], stoichiometry={"x1": -1})
        m.add_reaction("rs2", F.ma1, args=["x1", "kc"], stoichiometry={"x1": -1})
    elif p == "same-name-last":
        m.add_reaction("rs2", F.ma1, args=["x1", "kc"], stoichiometry={"x1": -1})
        m.add_reaction("rs", F2.ma1, args=["x1", "k2"], stoichiometry={"x1": -1})
    elif p in ("same-name-initial-assignments-first", "same-name-initial-assignments-last"):
        # two DIFFERENT functions of one name behind the initial assignments of two parameters (and of a variable)
        fa, fb = (F.add2, F2.add2) if p.endswith("first") else (F2.add2, F.add2)
        m.add_parameter("q5", InitialAssignment(fn=fa, args=["k1", "k2"]))
        m.add_parameter("q6", InitialAssignment(fn=fb, args=["k1", "k2"]))
        m.add_variable("w", InitialAssignment(fn=fb, args=["k1", "kc"]))
        m.add_reaction("rs", F.ma1, args=["x1", "q5"], stoichiometry={"x1": -1})
        m.add_reaction("rs2", F.ma1, args=["w", "q6"], stoichiometry={"w": -1, "x1": 1})
    elif p == "same-name-derived":
        m.add_derived("s1", F2.add2, args=["x1", "k1"])
        m.add_derived("s2", F.add2, args=["x1", "k1"])
        m.add_reaction("rs", F.sub2, args=["s1", "s2"], stoichiometry={"x1": -1})
    elif p == "own-parameter-names-swapped":
        m.add_parameters({"a": 0.25, "b": 1.75})
        m.add_derived("s1", F.sub2, args=["b", "a"])
        m.add_derived("s2", F.div2, args=["b", "a"])
        m.add_reaction("rs", F.ma1, args=["s1", "s2"], stoichiometry={"x1": -1})
    elif p == "shared-ia-and-derived":
        m.add_parameter("q2", InitialAssignment(fn=F.init_q, args=["x1", "k2"]))
        m.add_derived("s1", F.init_q, args=["k1", "x1"])
        m.add_reaction("rs", F.ma1, args=["s1", "q2"], stoichiometry={"x1": -1})
    elif p == "ia-variable":
        m.add_variable("w", InitialAssignment(fn=F.add2, args=["k1", "kc"]))
        m.add_reaction("rs", F.ma1, args=["w", "k1"], stoichiometry={"w": -1, "x1": 1})
    elif p == "unit-variable":
        m.add_variable("w", 2.0, unit=units.mmol)
        m.add_reaction("rs", F.ma1, args=["w", "k1"], stoichiometry={"w": -1})
    elif p == "unit-parameter":
        m.add_parameter("kw", 2.0, unit=units.per_second)
        m.add_reaction("rs", F.ma1, args=["x1", "kw"], stoichiometry={"x1": -1})
    elif p == "locals-and-conditionals":
        m.add_reaction("rs", F.with_local, args=["x1", "k1"], stoichiometry={"x1": -1})
        m.add_reaction("rs3", F.capped, args=["x1", "k1"], stoichiometry={"x1": -1})
        m.add_derived("s3", F.capped, args=["k2", "x1"])
        m.add_derived("s1", F.cond_rate, args=["x1", "k2"])
        m.add_reaction("rs2", F.power, args=["s1", "k1"], stoichiometry={"x1": -1})
    elif p == "same-name-coinciding-specialisation":
        # div2(a, b) = a / b and another div2(a, b) = b / a: with permuted arguments both specialise to x1 / k1
        m.add_derived("s1", F.div2, args=["x1", "k1"])
        m.add_derived("s2", F2.div2, args=["k1", "x1"])
        m.add_reaction("rs", F.add2, args=["s1", "s2"], stoichiometry={"x1": -1})
    elif p == "repeated-arg-same-specialisation":
        # second(a, b) = b: used as (k1, x1) and as (x1, x1) it specialises to the same expression x1
        m.add_derived("s1", F.second, args=["k1", "x1"])
        m.add_derived("s2", F.second, args=["x1", "x1"])
        m.add_reaction("rs", F.add2, args=["s1", "s2"], stoichiometry={"x1": -1})
    elif p == "repeated-arg-name-clash":
        # a model name that looks like the fresh name a generator would pick for the repeated argument
        m.add_parameters({"x1_1": 3.0, "x1_2": 5.0})
        m.add_derived("s1", F.weighted3, args=["x1", "x1", "x1_1"])
        m.add_derived("s2", F.weighted3, args=["x1_1", "x1", "x1"])
        m.add_derived("s3", F.weighted3, args=["x1", "x1_2", "x1"])
        m.add_reaction("rs", F.weighted3, args=["s1", "s2", "s3"], stoichiometry={"x1": -1})
    elif p in ("ignored-param-repeated-last", "ignored-param-repeated-first"):
        # one function whose value ignores its middle parameter: one component fills that slot with a repeated name
        uses = [("rs", ["x1", "kc", "k1"]), ("rs2", ["kc", "kc", "k2"])]
        for name, args in uses if p.endswith("last") else uses[::-1]:
            m.add_reaction(name, F.ign_mid, args=args, stoichiometry={"x1": -1})
    elif p == "generator-internal-names":
        # components called like the names the generator makes up: init_<name> (helpers of initial assignments),
        # <reaction>_stoich_<function> (helpers of computed coefficients), and plain function names
        m.add_parameter("q4", InitialAssignment(fn=F.add2, args=["k1", "kc"]))
        m.add_derived("init_q4", F.sub2, args=["x1", "k1"])
        m.add_derived("init_q", F.mul2, args=["x1", "k2"])
        m.add_derived("ma1", F.add2, args=["init_q4", "init_q"])
        m.add_derived("r_in_stoich_half_plus", F.add2, args=["x1", "q4"])
        m.add_reaction("add2", F.ma1, args=["ma1", "k1"], stoichiometry={"x1": -1})
        m.add_reaction("rs", F.lin, args=["r_in_stoich_half_plus", "k1"], stoichiometry={"x1": -1})
    elif p == "edge-tuple-untranslatable":
        m.add_reaction("rs", F.tuple_untr_fn, args=["x1", "k1"], stoichiometry={"x1": -1})
        m.add_derived("s1", F.tuple_untr_fn, args=["k2", "x1"])
    elif p == "edge-signature-variants":
        m.add_reaction("rs", F.posonly_mixed_fn, args=["x1", "k1"], stoichiometry={"x1": -1})
        m.add_derived("s1", F.posonly_all_fn, args=["k2", "x1"])
        m.add_derived("s2", F.default_arg_fn, args=["x1", "k2"])
    elif p == "local-import-shadows-module-helper":
        m.add_reaction("rs", F.local_import_fn, args=["x1", "k1"], stoichiometry={"x1": -1})
        m.add_reaction("rs2", F.module_helper_fn, args=["x1", "k2"], stoichiometry={"x1": -1})
        m.add_parameter("q3", InitialAssignment(fn=F.local_import_fn, args=["k1", "k2"]))
        m.add_reaction("rs3", F.ma1, args=["x1", "q3"], stoichiometry={"x1": -1})
    elif p == "untranslatable":
        m.add_reaction("rs", F.aug_fn, args=["x1", "k1"], stoichiometry={"x1": -1})
    return m


def generate(tier):
    slots = SHAPES_QUICK if tier == "quick" else SHAPES_THOROUGH
    keys = list(slots)
    cases = [{**dict(zip(keys, combo, strict=True)), "pattern": p} for combo in it.product(*slots.values()) for p in PATTERNS]
    for (i, a), (j, b) in it.product(enumerate(SESSION_CASES), repeat=2):
        if i != j:
            cases.append({"family": "session", "first": a, "second": b, "pattern": "session"})
    return cases


def _close(a, b):
    if math.isnan(a) and math.isnan(b):
        return True
    return abs(a - b) <= 1e-12 + 1e-12 * max(abs(a), abs(b))


def _compare(m1, m2, nt, txt, src):
    """Names, kinds, initial values and values at every state; an outcome for the first difference, else None."""
    # names and kinds
    if m1.ids != m2.ids:
        d = {k: (m1.ids.get(k), m2.ids.get(k)) for k in set(m1.ids) | set(m2.ids) if m1.ids.get(k) != m2.ids.get(k)}
        return outcome(False, "names-differ", symptom="names-or-kinds-differ", nontrivial=nt, detail=f"(original, rebuilt): {d} | {txt}")
    if m1.get_variable_names() != m2.get_variable_names():
        return outcome(False, "names-differ", symptom="variable-order-differs", nontrivial=nt, detail=txt)
    try:
        ic1, ic2 = m1.get_initial_conditions(), m2.get_initial_conditions()
        a1, a2 = m1.get_args(), m2.get_args()
    except Exception as exc:  # noqa: BLE001
        return outcome(False, "rebuilt-model-fails", symptom=f"rebuilt-model-fails:{type(exc).__name__}", nontrivial=nt,
                       detail=f"{type(exc).__name__}: {exc} | {txt}\n{src[:1500]}")
    for v in ic1:
        if not _close(float(ic1[v]), float(ic2[v])):
            return outcome(False, "different", symptom="different:initial-value", nontrivial=nt, detail=f"{v}: {ic2[v]} expected {ic1[v]} | {txt}")
    for n in a1.index:
        if not _close(float(a1[n]), float(a2[n])):
            return outcome(False, "different", symptom="different:value-at-initial-state", nontrivial=nt,
                           detail=f"{n}: {a2[n]} expected {a1[n]} | {txt}\n{src[:1500]}")
    vn = m1.get_variable_names()
    for st in STATES:
        for t in TIMES:
            s = dict(zip(vn, (st * 2)[: len(vn)], strict=True))
            x1, x2 = m1.get_args(s, t), m2.get_args(s, t)
            for n in x1.index:
                if not _close(float(x1[n]), float(x2[n])):
                    return outcome(False, "different", symptom="different:value", nontrivial=nt,
                                   detail=f"{n} at {s}, t={t}: {x2[n]} expected {x1[n]} | {txt}\n{src[:1500]}")
            r1, r2 = m1.get_right_hand_side(s, t), m2.get_right_hand_side(s, t)
            for v in vn:
                if not _close(float(r1[v]), float(r2[v])):
                    return outcome(False, "different", symptom="different:derivative", nontrivial=nt,
                                   detail=f"d{v}/dt at {s}, t={t}: {r2[v]} expected {r1[v]} | {txt}\n{src[:1500]}")
    return None


def check(case):
    import logging

    from mxlpy.meta import generate_mxlpy_code

    logging.getLogger("mxlpy").setLevel(logging.CRITICAL)
    logging.getLogger().setLevel(logging.CRITICAL)
    if case.get("family") == "session":
        return check_session(case)
    m1 = build_model(case)
    nt = not (case["pattern"] == "own" and case["derived"] == "none" and case["coef"] == "one" and case["ct"] == "none")
    txt = f"{case}"
    try:
        src = generate_mxlpy_code(m1)
    except Exception as exc:  # noqa: BLE001
        if case["pattern"] == "untranslatable" or case["pattern"] in EDGE_PATTERNS:
            return outcome(True, "refused", nontrivial=nt)
        return outcome(False, "generation-raised", symptom=f"generation-raised:{type(exc).__name__}", nontrivial=nt,
                       detail=f"{type(exc).__name__}: {exc} | {txt}")
    if case["pattern"] == "untranslatable":
        return outcome(False, "emitted-for-untranslatable", symptom="emitted-for-untranslatable", nontrivial=nt,
                       detail=f"a function with an augmented assignment cannot be translated, yet source was emitted | {txt}\n{src[:800]}")
    ns = {}
    try:
        exec(compile(src, "<generated mxlpy>", "exec"), ns)  # noqa: S102
        m2 = ns["create_model"]()
    except Exception as exc:  # noqa: BLE001
        return outcome(False, "generated-source-fails", symptom=f"generated-source-fails:{type(exc).__name__}", nontrivial=nt,
                       detail=f"{type(exc).__name__}: {exc} | {txt}\n{src[:1500]}")
    bad = _compare(m1, m2, nt, txt, src)
    if bad is not None:
        return bad
    # second generation: the source saved as a module, imported, generated again - still the same model
    import os
    import shutil

    from mc.core import WORK_DIR, sha12

    d = WORK_DIR / "C11" / f"{os.getpid()}_{sha12(case)}"
    try:
        try:
            mg = _import_generated(d / "model.py", src, f"{sha12(case)}_g1")
            src2 = generate_mxlpy_code(mg)
            m3 = _import_generated(d / "model2.py", src2, f"{sha12(case)}_g2")
        except Exception as exc:  # noqa: BLE001
            return outcome(False, "second-generation-failed", symptom=f"generation2:raised:{type(exc).__name__}", nontrivial=nt,
                           detail=f"the generated module cannot be generated from again: {type(exc).__name__}: {str(exc)[:300]} | {txt}")
        bad = _compare(m1, m3, nt, "[second generation] " + txt, src2)
        if bad is not None:
            bad["symptom"] = f"generation2:{bad['symptom']}"
            return bad
    finally:
        shutil.rmtree(d, ignore_errors=True)
    return outcome(True, "rebuilt-equal", nontrivial=nt)


# generated source is normally saved as a module and imported; a module file is rewritten when the model changes
SESSION_CASES = [
    {"nvars": 1, "coef": "one", "derived": "none", "ia": 0, "ct": "none", "pattern": "own"},
    {"nvars": 2, "coef": "pcomp", "derived": "chain-ooo", "ia": 1, "ct": "cond", "pattern": "permuted-args"},
    {"nvars": 1, "coef": "half", "derived": "one", "ia": 0, "ct": "time", "pattern": "same-name-first"},
    {"nvars": 2, "coef": "pname", "derived": "ratedep", "ia": 1, "ct": "none", "pattern": "hard-literals"},
]


def _import_generated(path, src, tag):
    import importlib.util
    import os
    import time

    path.parent.mkdir(parents=True, exist_ok=True)
    path.write_text(src)
    # make sure the rewritten file is distinguishable for the interpreter's own line cache
    now = time.time() + (hash(tag) % 1000)
    os.utime(path, (now, now))
    spec = importlib.util.spec_from_file_location(f"c11_generated_{tag}", path)
    mod = importlib.util.module_from_spec(spec)
    spec.loader.exec_module(mod)
    return mod.create_model()


def check_session(case):
    """Two models, one after the other, through the SAME module file; each round trip is taken twice
    (model -> source -> imported model -> source -> imported model)."""
    import os
    import shutil

    from mxlpy.meta import generate_mxlpy_code

    from mc.core import WORK_DIR, sha12

    d = WORK_DIR / "C11" / f"{os.getpid()}_{sha12(case)}"
    path = d / "model.py"
    try:
        for step, sub in enumerate((case["first"], case["second"])):
            m1 = build_model(sub)
            txt = f"session step {step} (file rewritten in place) {sub} | whole session {case}"
            cur = m1
            for gen in (1, 2):
                try:
                    src = generate_mxlpy_code(cur)
                    cur = _import_generated(path, src, f"{sha12(case)}_{step}_{gen}")
                except Exception as exc:  # noqa: BLE001
                    return outcome(False, "session-generation-failed", symptom=f"session:generation-{gen}-raised:{type(exc).__name__}", nontrivial=True,
                                   detail=f"{type(exc).__name__}: {str(exc)[:300]} | {txt}")
                bad = _compare(m1, cur, True, f"generation {gen} " + txt, src)
                if bad is not None:
                    bad["symptom"] = f"session:{bad['symptom']}"
                    return bad
        return outcome(True, "session-rebuilt-equal", nontrivial=True)
    finally:
        shutil.rmtree(d, ignore_errors=True)


def _has_unit(case):
    return case["pattern"] in ("unit-variable", "unit-parameter")


PREDICATES = {"C11-units-not-regenerated": _has_unit}


def run(ctx):
    cases = generate(ctx.tier)
    ctx.note(f"{len(cases)} cases ({len(PATTERNS)} function-assignment patterns)")
    ctx.evaluate(cases, timeout=120)
    ctx.coverage_extra["patterns"] = PATTERNS
