"""C06 - Python -> symbolic translation is sound: equal everywhere, or refused.

All function bodies of a bounded grammar (about 30 statement templates with typed holes filled from
an expression menu and a condition menu) are written to generated modules, imported, translated with
mxlpy.meta.source_tools.fn_to_sympy under four argument renamings and compared with the Python
function itself on a 6x6 grid that contains every branch boundary.
"""

from __future__ import annotations

import importlib
import itertools as it
import math
import sys
from pathlib import Path

from mc.core import WORK_DIR, outcome, sha12

ID = "C06"
LEVEL = "exploration"
TECHNIQUE = "bounded-exhaustive enumeration of function bodies (grammar templates x hole menus) x renamings x boundary grid, differential against the Python function"
LEVEL_TEXT = (
    "Every body produced by ~30 statement templates (assignments, tuple assignments, if/elif/else with assignments or "
    "returns, fall-through, nested ifs, conditional expressions, equality and chained comparisons, helper calls in the "
    "same and another module incl. permuted parameter names, math/numpy calls, constants, and just-outside constructs "
    "such as +=, for, while, assert, and/or/not) with holes filled from a 12-expression and a 10-condition menu is "
    "translated under 4 renamings and evaluated on a 36-point grid containing all literals used in conditions. "
    "Verdicts: refused / sound / unsound; only unsound is a violation."
    " Added: statements skipped as 'no influence', local imports that shadow module names, locals named like "
    "module constants, statement kinds that rebind an already bound name (annotated, walrus, chained, "
    "unpacking, nested def, augmented), comparison chains with mixed operators, roots / fractional powers of "
    "squares, a helper re-bound between two translations, and every function of the shipped library mxlpy.fns "
    "under every rotation of its own parameter names. "
    ' Also: signature variants of the same function (positional-only, keyword-only, defaults), helper calls with keyword arguments, tuple displays with an element that cannot be translated.'
    ' Also: library functions whose usual symbolic stand-ins do not mean the same (np.greater at equality, cube roots of negative numbers, np.maximum / np.minimum, np.positive).'
)
LEVEL_NOTE = "trusted: CPython as the semantics of the function, sympy's evaluation of the returned expression (subs/evalf or lambdify cross-checked), the finite grid"
RULE = (
    "case = (function source, renaming); the template x menu product is enumerated completely. Non-trivial = the body "
    "has more than a bare arithmetic return or the renaming is not the identity; distinct = distinct (source, renaming)."
)
ASSUMPTIONS = ["two-argument functions; bodies of at most ~6 statements; grid {-1,0,0.5,1,2,3}^2"]

GRID = [-1.0, 0.0, 0.5, 1.0, 2.0, 3.0]
RENAMINGS = {"none": None, "fresh": ["a", "b"], "swap": ["y", "x"], "overlap": ["y", "a"]}

E = [
    "x + y",
    "x - y",
    "x * y",
    "x / (y + 4.0)",
    "x ** 2",
    "-x + 2 * y",
    "(x + 1.0) * (y - 0.5)",
    "3",
    "x / y",
    "x % 2.0",
    "x // 2.0",
    "y * 0.5 + x",
    "((x - y) ** 2) ** 0.5",
    "abs(x - y) + ((x - 1) ** 2) ** 0.25",
]
C = [
    "x < 1",
    "x >= 2",
    "x == 1",
    "0 < x < 2",
    "x <= 1",
    "x > 0.5",
    "x != 0",
    "x < y",
    "0.5 <= x <= y",
    "x + y == 2 * y",
    # chains whose links use different operators (half-open windows are decided exactly at the boundary)
    "0 <= x < 2",
    "0.5 < x <= y",
    "y > x >= 0.5",
    "x == y < 2",
    "1 <= x != y",
    "0 < x < y <= 2",
]

HELPER_SAME = '''
import math
import numpy
import numpy as np
from mc_c06_helpers import h2
import mc_c06_helpers as hm

K = 2.5


def h(a, b):
    return a - 2 * b


def hs(y, x):
    return y - 2 * x


def hc(a, b):
    if a > b:
        return a - b
    return b * 2


def hl(a, b):
    return a + 10 * b


def hp(a, /, b):
    return a - 3 * b


def hloop(a, b):
    t = 0.0
    for _i in range(2):
        t = t + a * b
    return t


KK = 7.0
'''
HELPER_OTHER = '''
def h2(a, b):
    return a / (b * b + 1.0)


def h3(x, y):
    t = x * 3
    return t - y


def hl(a, b):
    return a * b - 1.0


KK = 0.125
'''


def _ind(s, n=1):
    return "\n".join(("    " * n + line) if line else line for line in s.splitlines())


def templates(tier):
    """Yield (template id, body source) pairs; simplest first."""
    full = tier == "thorough"
    E1 = E  # single-hole menus
    C1 = C
    Em = E if full else E[:5]
    Cm = C if full else C[:4]
    Ef = ["x + y", "x * y", "x - 2 * y"]  # fixed fillers

    for e in E1:
        yield "ret", f"return {e}"
    for e1, e2 in it.product(Em, Em):
        yield "assign", f"t = {e1}\nreturn t + {e2}"
    for e1, e2 in it.product(Em, Em):
        yield "assign-mul", f"t = {e1}\nreturn t * ({e2})"
    for e1, e2 in it.product(Em, Em):
        yield "tuple", f"a, b = {e1}, {e2}\nreturn a - b"
    for e1, e2 in it.product(Em, Em):
        yield "tuple-rebind", f"x, y = {e1}, {e2}\nreturn x - y"
    for e1, e2, e3 in it.product(Em[:3], Em[:3], Em[:3]):
        yield "reassign-chain", f"t = {e1}\nu = t * ({e2})\nt = u - ({e3})\nreturn t + u"
    # conditionals: every condition once with fixed fillers, then the multi-hole product
    for c in C1:
        yield "if-else-ret", f"if {c}:\n    return {Ef[0]}\nelse:\n    return {Ef[1]}"
        yield "if-fall", f"if {c}:\n    return {Ef[0]}\nreturn {Ef[1]}"
        yield "ifexp", f"return {Ef[0]} if {c} else {Ef[1]}"
        yield "if-else-assign", f"if {c}:\n    t = {Ef[0]}\nelse:\n    t = {Ef[1]}\nreturn t"
        yield "branch-reassign", f"t = {Ef[0]}\nif {c}:\n    t = {Ef[1]}\nreturn t"
        yield "after-if-else", f"if {c}:\n    t = {Ef[0]}\nelse:\n    t = {Ef[1]}\nreturn t * ({Ef[2]})"
    for c, e1, e2 in it.product(Cm, Em, Em):
        yield "if-else-ret", f"if {c}:\n    return {e1}\nelse:\n    return {e2}"
        yield "if-fall", f"if {c}:\n    return {e1}\nreturn {e2}"
        yield "ifexp", f"return {e1} if {c} else {e2}"
        yield "ifexp-assign", f"t = {e1} if {c} else {e2}\nreturn t * 2"
        yield "if-else-assign", f"if {c}:\n    t = {e1}\nelse:\n    t = {e2}\nreturn t"
        yield "branch-reassign", f"t = {e1}\nif {c}:\n    t = {e2}\nreturn t"
        yield "mixed-branches", f"if {c}:\n    t = {e1}\n    return t\nelse:\n    return {e2}"
        yield "early-return-then-code", f"if {c}:\n    return {e1}\nt = {e2}\nreturn t + 1.0"
        yield "if-no-else-assign", f"if {c}:\n    t = {e1}\n    return t + ({e2})\nreturn {e2}"
    for c, e1, e2, e3 in it.product(Cm, Em, Em, Em if full else Em[:2]):
        yield "after-if-else", f"if {c}:\n    t = {e1}\nelse:\n    t = {e2}\nreturn t * ({e3})"
    for c1, c2, e1 in it.product(Cm, Cm, Em):
        yield "elif-ret", f"if {c1}:\n    return {e1}\nelif {c2}:\n    return {Ef[1]}\nelse:\n    return {Ef[2]}"
        yield "elif-assign", f"if {c1}:\n    t = {e1}\nelif {c2}:\n    t = {Ef[1]}\nelse:\n    t = {Ef[2]}\nreturn t"
        yield "nested-if", f"if {c1}:\n    if {c2}:\n        return {e1}\n    else:\n        return {Ef[1]}\nelse:\n    return {Ef[2]}"
        yield "if-if-ret", f"if {c1}:\n    return {e1}\nif {c2}:\n    return {Ef[1]}\nreturn {Ef[2]}"
        yield "nested-ifexp", f"return ({e1} if {c2} else {Ef[1]}) if {c1} else {Ef[2]}"
    # helpers
    for e1, e2 in it.product(Em, Em):
        yield "call-same", f"return h({e1}, {e2})"
        yield "call-other", f"return hm.h2({e1}, {e2})"
        yield "call-from-import", f"return h2({e1}, {e2}) + h({e2}, {e1})"
        yield "call-permuted-names", f"return hs({e1}, {e2})"
        yield "call-conditional-helper", f"return hc({e1}, {e2})"
        yield "call-helper-with-locals", f"return hm.h3({e1}, {e2})"
    # names bound by an import *inside* the body take precedence over module-level names of the function's module
    for e1, e2 in it.product(Em, Em):
        yield "local-import-shadows", f"from mc_c06_helpers import hl\nreturn hl({e1}, {e2})"
        yield "local-import-module", f"import mc_c06_helpers as hq\nreturn hq.hl({e1}, {e2}) + hl({e2}, {e1})"
    for e1 in Em:
        yield "local-import-constant", f"from mc_c06_helpers import KK\nreturn ({e1}) * KK"
        yield "module-constant-vs-helper-constant", f"return ({e1}) * KK + hm.KK"
    # a local that carries the name of a module-level constant (K = 2.5, KK = 7.0 in the function's module) - also when
    # its value is zero, equal to an argument, or bound in a branch
    for e1 in Em:
        for zero in ("0.0", "0", "x - x", "y * 0", e1):
            yield "local-shadows-module-constant", f"K = {zero}\nreturn ({e1}) + K * 3"
            yield "local-shadows-module-constant", f"KK, t = {zero}, {e1}\nreturn t - KK"
        yield "local-shadows-module-constant-branch", f"K = 0.0\nif x > y:\n    K = {e1}\nreturn K + y"
        yield "argument-named-like-constant", f"return ({e1}) * K"  # evaluated as f(x, y) with the module constant K
    # other ways of declaring the two parameters, and keyword arguments in nested calls
    for e1, e2 in it.product(Em[:4], Em[:4]):
        for sig in ("x, /, y", "x, y, /", "x, y=2.0", "x: float, y: float = 1.0"):
            yield "signature-variant", f"#sig: {sig}\nt = {e1}\nreturn t - ({e2})"
            yield "signature-variant-call", f"#sig: {sig}\nreturn h({e1}, {e2}) + hs(x, y)"
        # an element of a tuple display that cannot be translated, bound to a name that is also a module constant
        yield "tuple-untranslatable-element", f"K, t = hloop(x, y), {e1}\nreturn t + K * ({e2})"
        yield "tuple-untranslatable-element", f"t, KK = {e1}, hloop(y, x)\nreturn t - KK"
        yield "call-keywords", f"return h(a={e1}, b={e2})"
        yield "call-keywords-out-of-order", f"return h(b={e2}, a={e1})"
        yield "call-mixed-keywords", f"return hm.h2({e1}, b={e2}) + hs(x=y, y=x)"
        yield "call-posonly-helper", f"return hp({e1}, {e2}) + hp({e2}, b={e1})"
    yield "call-permuted-names", "return hs(y, x)"
    yield "call-permuted-names", "return hs(x, y)"
    yield "call-nested", "return h(h(x, y), h(y, x))"
    yield "call-nested", "return hs(hs(y, x), x)"
    # look-alike library functions with a CONSTANT among their arguments (these fold at translation time)
    for body in ("np.minimum(3, y) - x", "np.maximum(0.5, y) + x", "np.minimum(x, 1.0) * y", "np.positive(-2.0) * x + y", "np.greater(3, 3.0) * x + y",
                 "np.less(2.0, 2) * x - y", "np.greater_equal(2.0, 2) * x - y", "math.cbrt(-8.0) * x + y", "np.sign(-0.0) * x + y"):
        yield "libcall-lookalike-constant", "return " + body
    # library functions and constants
    for e in Em:
        for f in ("math.exp({})", "math.sqrt(abs({}))", "numpy.exp({})", "np.sqrt(abs({}))", "abs({})", "math.log(abs({}) + 1.0)",
                  "pow({}, 2)", "math.sin({})", "math.floor({})", "math.ceil({})"):
            yield "libcall", "return " + f.format(e)
        # library functions whose usual symbolic stand-ins do not mean the same: strict comparisons at equality, roots of
        # negative numbers, element-wise maximum / minimum, the identity np.positive
        for f in ("np.greater({}, y) * x + 1.0", "np.less({}, y) * x + 2.0", "np.greater_equal({}, y) * x", "np.less_equal({}, y) * x",
                  "math.cbrt({})", "np.cbrt({}) + y", "np.positive({}) + y", "np.maximum({}, y)", "np.minimum({}, y) - x", "np.negative({}) * y",
                  "np.sign({}) * y", "math.copysign(1.0, {}) * y" , "np.square({}) - y", "np.absolute({}) - x"):
            yield "libcall-lookalike", "return " + f.format(e)
        yield "libcall2", f"return min({e}, y)"
        yield "libcall2", f"return max({e}, 1.0)"
        yield "const-module", f"return ({e}) * K"
        yield "const-math", f"return ({e}) + math.pi"
        yield "const-numpy", f"return ({e}) * numpy.e"
        yield "unary", f"return +({e}) - (-({e}))"
    # just outside the supported subset
    for e1, e2 in it.product(Em[:3], Em[:3]):
        yield "augassign", f"t = {e1}\nt += {e2}\nreturn t"
        yield "augassign-mul", f"t = {e1}\nt *= 2\nreturn t + {e2}"
        yield "for", f"t = {e1}\nfor _i in range(2):\n    t = t + ({e2})\nreturn t"
        yield "while", f"t = {e1}\nwhile t < 0:\n    t = t + 1.0\nreturn t + ({e2})"
        yield "assert", f"assert x > -10\nreturn {e1}"
        yield "pass", f"pass\nreturn {e1}"
        yield "docstring", f'"""Doc."""\nreturn {e1}'
        yield "and", f"if x > 0 and y > 0:\n    return {e1}\nelse:\n    return {e2}"
        yield "or", f"if x > 1 or y > 1:\n    return {e1}\nreturn {e2}"
        yield "not", f"if not x > 0:\n    return {e1}\nreturn {e2}"
        yield "ifexp-and", f"return {e1} if (x > 0 and y < 2) else {e2}"
        yield "try", f"try:\n    t = {e1}\nexcept ZeroDivisionError:\n    t = 0.0\nreturn t + ({e2})"
        yield "del-global", f"t = {e1}\nu = t\nt = {e2}\nreturn u"
        yield "walrus", f"return (t := {e1}) + t * ({e2})"
        yield "lambda", f"g = lambda q: q * 2\nreturn g({e1})"
        yield "annotated-assign", f"t: float = {e1}\nreturn t + ({e2})"
        yield "with-default-compare", f"if {e1} > {e2}:\n    return 1.0\nreturn 0.0"
        # the same statement kinds binding a name that is ALREADY bound (an argument, an earlier local): dropping
        # the statement then leaves a translatable body with another value
        yield "annotated-rebind-arg", f"x: float = {e1}\nreturn x + ({e2})"
        yield "annotated-rebind-local", f"t = {e1}\nt: float = t * 2 + ({e2})\nreturn t"
        yield "annotated-bare", f"t: float\nt = {e1}\nreturn t + ({e2})"
        yield "annotated-in-branch", f"t = {e1}\nif x > y:\n    t: float = t - ({e2})\nreturn t"
        yield "walrus-rebind", f"return (x := {e1}) + x * ({e2})"
        yield "augassign-arg", f"x += {e1}\nreturn x * ({e2})"
        yield "for-rebind-arg", f"for x in ({e1}, {e2}):\n    pass\nreturn x + y"
        yield "nested-def", f"def g(q):\n    return q * 2\nreturn g({e1}) + ({e2})"
        yield "nested-def-shadows-helper", f"def h(a, b):\n    return a + b\nreturn h({e1}, {e2})"
        yield "del-then-use", f"t = {e1}\nu = t + ({e2})\ndel t\nreturn u"
        yield "global-decl", f"global K\nreturn ({e1}) * K + ({e2})"
        yield "starred-assign", f"a, *b = {e1}, {e2}, x\nreturn a + b[0]"
        yield "chained-assign", f"a = b = {e1}\nreturn a + b * ({e2})"
        yield "chained-assign-rebind", f"x = y = {e1}\nreturn x - y + ({e2})"
        yield "chained-assign-three", f"t = x = u = {e1}\nreturn t + x * u - ({e2})"
        yield "unpack-non-display-rebind", f"x, y = (y, x) if x > y else ({e1}, {e2})\nreturn x - 2 * y"
        yield "unpack-call-rebind", f"x, y = divmod({e1}, 2.0)\nreturn x + y + ({e2})"
        yield "single-from-tuple", f"t = {e1}, {e2}\nreturn x + y"
    # statements without influence on the value (docstring, pass, assert, bare expression) in front of and
    # between branching code whose branches update a name non-idempotently
    for skip, c, e1 in it.product(('"""Doc."""', "pass", "assert x > -10", "x + y", '"""Doc."""\npass'), Cm, Em[:3]):
        yield "skipped-then-branch-update", f"{skip}\nt = {e1}\nif {c}:\n    t = t / 2.0 + 1.0\nreturn t"
        yield "skipped-then-branch-update", f"t = {e1}\n{skip}\nif {c}:\n    t = t * t - 1.0\nelse:\n    t = t + 3.0\nreturn t * 2"
        yield "skipped-inside-branch", f"t = {e1}\nif {c}:\n    {skip.splitlines()[0]}\n    t = t - 1.0\nreturn t"
        yield "skipped-then-early-return", f"{skip}\nif {c}:\n    return {e1}\nt = {Ef[0]}\nif x > y:\n    t = t + 1.0\nreturn t"


def build_functions(tier):
    """[(fname, template id, full source)] deduplicated by body."""
    seen = set()
    out = []
    for tid, body in templates(tier):
        if body in seen:
            continue
        seen.add(body)
        fname = f"f{len(out)}"
        sig = "x, y"
        if body.startswith("#sig: "):  # a template may bring its own parameter list (same two parameters x and y)
            first, body = body.split("\n", 1)
            sig = first[len("#sig: "):]
        out.append((fname, tid, f"def {fname}({sig}):\n{_ind(body)}\n"))
    return out


_LOADED = {}  # sha(source body) -> function


def _gen_dir():
    d = WORK_DIR / "C06" / f"gen_{__import__('os').getpid()}"
    d.mkdir(parents=True, exist_ok=True)
    return d


def load_functions(funcs, gen_dir, per_module=500):
    """Write the functions to generated modules (so inspect.getsource works) and import them."""
    gen_dir = Path(gen_dir)
    (gen_dir / "mc_c06_helpers.py").write_text(HELPER_OTHER)
    if str(gen_dir) not in sys.path:
        sys.path.insert(0, str(gen_dir))
    importlib.invalidate_caches()
    for mi in range(0, len(funcs), per_module):
        chunk = funcs[mi: mi + per_module]
        name = f"mc_c06_gen_{sha12([c[2] for c in chunk])}"
        (gen_dir / f"{name}.py").write_text(HELPER_SAME + "\n\n" + "\n\n".join(c[2] for c in chunk))
        mod = importlib.import_module(name)
        for fname, _tid, src in chunk:
            _LOADED[sha12(src)] = getattr(mod, fname)


def get_function(src):
    k = sha12(src)
    if k not in _LOADED:  # replay path: a single-function module
        fname = src.split("(")[0].split()[-1]
        load_functions([(fname, "replay", src)], _gen_dir())
    return _LOADED[k]


def evaluate_expr(expr, symnames, values):
    """Numeric value of a sympy expression with symbols bound by name; raises on failure."""
    import sympy

    subs = {sympy.Symbol(n): v for n, v in zip(symnames, values, strict=True)}
    val = expr.subs(subs) if hasattr(expr, "subs") else expr
    if isinstance(val, (bool, sympy.logic.boolalg.BooleanAtom)):
        return float(bool(val))
    val = sympy.N(val)
    if val.free_symbols:
        raise ValueError(f"unbound symbols {val.free_symbols}")
    if val.is_real is False and val.has(sympy.I):
        raise ValueError("complex")
    return float(val)


def check(case):
    import logging

    import sympy
    from mxlpy.meta.source_tools import fn_to_sympy

    logging.getLogger("mxlpy").setLevel(logging.CRITICAL)
    if case.get("family") == "rebind":
        return check_rebind(case)
    if case.get("family") == "library":
        return check_library(case)
    src, ren, tid = case["src"], case["ren"], case["tid"]
    fn = get_function(src)
    names = RENAMINGS[ren]
    nontrivial = tid != "ret" or ren != "none"
    model_args = None if names is None else [sympy.Symbol(n) for n in names]
    symnames = ["x", "y"] if names is None else names
    try:
        expr = fn_to_sympy(fn, origin="c06", model_args=model_args)
    except Exception as exc:  # noqa: BLE001 - "fails visibly" includes raising
        return outcome(True, "refused-raised", nontrivial=nontrivial, extra={"refused": 1}, key=None)
    if expr is None:
        return outcome(True, "refused-none", nontrivial=nontrivial, extra={"refused": 1})
    # fast path: lambdify once; fall back to subs when code generation is not possible
    lam = None
    try:
        lam = sympy.lambdify([sympy.Symbol(n) for n in symnames], expr, modules=["math"])
    except Exception:  # noqa: BLE001
        lam = None
    compared = 0
    for vx in GRID:
        for vy in GRID:
            try:
                want = fn(vx, vy)
            except Exception:  # noqa: BLE001 - outside the function's domain
                continue
            if isinstance(want, complex) or (isinstance(want, float) and (math.isnan(want) or math.isinf(want))):
                continue
            got = None
            if lam is not None:
                try:
                    got = float(lam(vx, vy))
                except Exception:  # noqa: BLE001
                    got = None
            if got is None or not _close(got, float(want)):
                # confirm with exact substitution before calling it a difference
                try:
                    got = evaluate_expr(expr, symnames, [vx, vy])
                except Exception as exc:  # noqa: BLE001
                    return outcome(False, "unsound", symptom=f"unsound:{tid}", nontrivial=nontrivial,
                                   detail=f"expression {expr} cannot be evaluated at x={vx}, y={vy} ({type(exc).__name__}: {exc}) where the function gives {want} | renaming={ren}\n{src}")
            compared += 1
            if not _close(got, float(want)):
                return outcome(False, "unsound", symptom=f"unsound:{tid}", nontrivial=nontrivial,
                               detail=f"f(x={vx}, y={vy})={want} but expression {expr} gives {got} | renaming={ren} ({symnames})\n{src}")
    return outcome(True, "sound", nontrivial=nontrivial, extra={"points_compared": compared})


def _close(a, b):
    return abs(a - b) <= 1e-9 + 1e-9 * max(abs(a), abs(b))


# ---- the shipped rate-law library (mxlpy.fns), 1 to 7 parameters ---------------------------------------

LIB_GRID = [0.25, 1.0, 1.5, 3.0]


def library_functions():
    import inspect

    from mxlpy import fns

    return sorted(n for n, f in vars(fns).items() if inspect.isfunction(f) and f.__module__ == fns.__name__ and not n.startswith("_"))


def library_renamings(params):
    """Model names for the parameters: none, fresh, and the function's own parameter names in every rotation and
    reversed (a model that happens to use the library's parameter names for other things)."""
    n = len(params)
    out = {"none": None, "fresh": [f"m{i}" for i in range(n)], "reversed": list(reversed(params))}
    for r in range(1, n):
        out[f"rotated{r}"] = params[r:] + params[:r]
    if n >= 2:
        out["duplicate"] = [params[1]] + params[1:]  # two parameters bound to the same model name
    return out


def check_library(case):
    import inspect

    import sympy
    from mxlpy import fns
    from mxlpy.meta.source_tools import fn_to_sympy

    fn = getattr(fns, case["fn"])
    params = list(inspect.signature(fn).parameters)
    names = library_renamings(params)[case["ren"]]
    symnames = params if names is None else names
    txt = f"mxlpy.fns.{case['fn']}({', '.join(params)}) with model names {symnames}"
    try:
        expr = fn_to_sympy(fn, origin="c06lib", model_args=None if names is None else [sympy.Symbol(n) for n in names])
    except Exception as exc:  # noqa: BLE001
        return outcome(False, "library-refused", symptom="library-function-not-translated", nontrivial=True, detail=f"{type(exc).__name__}: {exc} | {txt}")
    if expr is None:
        return outcome(False, "library-refused", symptom="library-function-not-translated", nontrivial=True, detail=f"no expression | {txt}")
    uniq = list(dict.fromkeys(symnames))
    compared = 0
    try:
        lam = sympy.lambdify([sympy.Symbol(n) for n in uniq], expr, modules=["math"])
    except Exception:  # noqa: BLE001
        lam = None
    grid = LIB_GRID if len(uniq) <= 4 else LIB_GRID[:3] if len(uniq) <= 6 else LIB_GRID[1:3]
    for point in it.product(grid, repeat=len(uniq)):
        env = dict(zip(uniq, point, strict=True))
        vals = [env[n] for n in symnames]
        try:
            want = float(fn(*vals))
        except Exception:  # noqa: BLE001
            continue
        if math.isnan(want) or math.isinf(want):
            continue
        got = None
        if lam is not None:
            try:
                got = float(lam(*[env[n] for n in uniq]))
            except Exception:  # noqa: BLE001
                got = None
        if got is None or not _close(got, want):
            got = evaluate_expr(expr, uniq, [env[n] for n in uniq])  # exact substitution decides
        compared += 1
        if not _close(got, want):
            return outcome(False, "unsound", symptom="unsound:library", nontrivial=True, detail=f"{txt}: f{tuple(vals)}={want} but expression {expr} gives {got}")
    return outcome(True, "sound", nontrivial=True, extra={"points_compared": compared})


REBIND_SRC = '''
def hr(a, b):
    return a - 2 * b


def hr_alt(a, b):
    return a * b + 1.0


def uses_helper(x, y):
    return hr(x, y) * 2.0 + y


def uses_helper_twice(x, y):
    t = hr(y, x)
    return t + hr(x, 1.0)
'''


def check_rebind(case):
    """History: translate f, rebind the helper it calls in its module, translate again."""
    import importlib
    import logging

    import sympy
    from mxlpy.meta.source_tools import fn_to_sympy

    logging.getLogger("mxlpy").setLevel(logging.CRITICAL)
    d = _gen_dir()
    name = f"mc_c06_rebind_{sha12([case, __import__('os').getpid()])}"
    (d / f"{name}.py").write_text(REBIND_SRC)
    if str(d) not in sys.path:
        sys.path.insert(0, str(d))
    importlib.invalidate_caches()
    mod = importlib.import_module(name)
    fn = getattr(mod, case["fn"])
    steps = case["steps"]  # e.g. ["translate", "rebind", "translate"]
    for i, st in enumerate(steps):
        if st == "rebind":
            mod.hr = mod.hr_alt
            continue
        try:
            expr = fn_to_sympy(fn, origin="c06", model_args=[sympy.Symbol("x"), sympy.Symbol("y")])
        except Exception:  # noqa: BLE001
            continue
        if expr is None:
            continue
        for vx in GRID:
            for vy in GRID:
                want = fn(vx, vy)
                got = evaluate_expr(expr, ["x", "y"], [vx, vy])
                if not _close(got, float(want)):
                    return outcome(False, "unsound", symptom="unsound:helper-rebound", nontrivial=True,
                                   detail=f"after steps {steps[: i + 1]}: {case['fn']}(x={vx}, y={vy})={want} but expression {expr} gives {got}")
    return outcome(True, "sound", nontrivial=True)


def replay(case):
    return check(case)


PREDICATES = {}


def run(ctx):
    funcs = build_functions(ctx.tier)
    gen = ctx.work / "gen"
    gen.mkdir(parents=True, exist_ok=True)
    load_functions(funcs, gen)
    cases = [{"src": src, "tid": tid, "ren": ren} for (_f, tid, src) in funcs for ren in RENAMINGS]
    ctx.note(f"{len(funcs)} distinct function bodies x {len(RENAMINGS)} renamings = {len(cases)} cases, grid {len(GRID)}x{len(GRID)}")
    for fn_name in ("uses_helper", "uses_helper_twice"):
        for steps in (["translate", "rebind", "translate"], ["rebind", "translate"], ["translate", "translate", "rebind", "translate"]):
            cases.append({"family": "rebind", "fn": fn_name, "steps": steps})
    import inspect

    from mxlpy import fns

    lib = library_functions()
    for name in lib:
        for ren in library_renamings(list(inspect.signature(getattr(fns, name)).parameters)):
            cases.append({"family": "library", "fn": name, "ren": ren})
    ctx.note(f"{len(lib)} shipped rate laws (mxlpy.fns) under every rotation of their own parameter names")
    ctx.evaluate(cases, timeout=120)
    ctx.coverage_extra.update({"library_functions": lib, "bodies": len(funcs), "renamings": list(RENAMINGS), "templates": sorted({t for _f, t, _s in funcs})})
