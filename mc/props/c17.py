"""C17 - SBML import builds the model the document describes.

SBML L3 documents are generated with libsbml from an abstract *description* (species in a compartment
of size 2, substance-only flag, initial amount or concentration, constant / rule-defined / initially
assigned parameters, a function definition, assignment rules, kinetic laws with piecewise / power /
exp / ln, constant / fractional / rule-defined stoichiometries, awkward identifiers) and read with
mxlpy.sbml.read. Oracle: an independent evaluation of the description (not of the XML).
"""

from __future__ import annotations

import itertools as it
import math
import os
from pathlib import Path

from mc.core import WORK_DIR, outcome, sha12

ID = "C17"
LEVEL = "exploration"
TECHNIQUE = "bounded-exhaustive enumeration of generated SBML documents (description grammar x identifier variants x sessions) against an independent evaluator of the description"
LEVEL_TEXT = (
    "Documents from the product of: substance-only flag, initial amount/concentration, parameter k2 constant / "
    "assignment rule / initial assignment, function definition, species initial assignment, species-dependent "
    "assignment rule, 7 kinetic-law shapes (mass action, compartment-scaled, piecewise, power, exp, ln, function call), "
    "4 stoichiometry kinds (1, 2, 0.5, rule on the species-reference id) and 6 identifier variants (plain, Python "
    "keywords, leading underscore, names of math constants/functions, time-like) are imported; initial values and, at 3 "
    "states, the species derivatives must equal stoichiometry x kinetic law with function definitions, rules and the "
    "compartment size applied (amount vs concentration decided from the imported initial value, compartment size 2). "
    "Two-document sessions (different stems, same stem in two directories, first model re-evaluated) must not interfere."
    " Also: laws with abs / min / max / roots / fractional powers, chains of initial assignments (also on the compartment), identifier variants with Python builtins and with the generated module's reserved ids next to '<id>_fn', documents revised in place and read again within the same second, stems that differ by one digit; amount vs concentration is decided structurally (a '<species>_amount' derived next to the variable)."
    " Also: builtins next to '<builtin>_' siblings (eight pairs), a law naming every element, the compartment inside a sum, coefficients that follow a species or have a rate rule and an initial assignment of their own (evaluated away from the initial value)."
)
LEVEL_NOTE = "trusted: libsbml to write the documents; third-party pysbml is part of the import path and only observable through mxlpy.sbml.read"
RULE = (
    "case = (description slot tuple, identifier variant, session kind); products enumerated per tier. Non-trivial = any "
    "case beyond plain mass action with constant parameters; distinct = distinct tuples."
)
ASSUMPTIONS = ["one compartment of size 2, two species, two reactions", "SBML Level 3 Version 2 core"]

V = 2.0  # compartment size: amount and concentration differ
NAMES = {
    "plain": {"S1": "S1", "S2": "S2", "k1": "k1", "k2": "k2", "d": "d1", "f": "fd", "C": "comp"},
    "keyword": {"S1": "lambda", "S2": "in", "k1": "class", "k2": "def", "d": "is", "f": "fd", "C": "comp"},
    "underscore": {"S1": "_s1", "S2": "_s2", "k1": "_k1", "k2": "__k2", "d": "_d", "f": "_f", "C": "_c"},
    "mathconst": {"S1": "S1", "S2": "S2", "k1": "pi", "k2": "e", "d": "d1", "f": "fd", "C": "comp"},
    "mathfunc": {"S1": "S1", "S2": "S2", "k1": "exp", "k2": "math", "d": "log", "f": "fd", "C": "comp"},
    "timelike": {"S1": "t", "S2": "time_", "k1": "T", "k2": "dt", "d": "d1", "f": "fd", "C": "comp"},
    "modules": {"S1": "math", "S2": "S2", "k1": "scipy", "k2": "k2", "d": "numpy", "f": "fd", "C": "comp"},
    # legal ids that are Python builtins the generated code itself calls for MathML max / min / abs / pow
    "builtins": {"S1": "S1", "S2": "S2", "k1": "k1", "k2": "min", "d": "max", "f": "fd", "C": "pow"},  # (a function definition called abs is not expressible in the L3 formula syntax)
    # builtins next to elements literally called <builtin>_ (the spelling the generator falls back to for a builtin)
    "builtin-siblings": {"S1": "min", "S2": "min_", "k1": "max", "k2": "max_", "d": "abs_", "f": "fd", "C": "pow_"},
    "builtin-siblings-2": {"S1": "sum_", "S2": "sum", "k1": "id_", "k2": "id", "d": "abs_", "f": "fd", "C": "len_"},
    # a reserved id (renamed to <id>_fn by the generator) next to an element that is literally called <id>_fn
    "reserved-fn": {"S1": "S1", "S2": "S2", "k1": "k1", "k2": "scipy_fn", "d": "math_fn", "f": "fd", "C": "comp", "r1": "math", "r2": "scipy"},
    # legal ids that coincide with names the importer's code generator makes up (init_<id> for initial assignments)
    "internal-S1": {"S1": "S1", "S2": "S2", "k1": "k1", "k2": "k2", "d": "init_S1", "f": "fd", "C": "comp"},
    "internal-k2": {"S1": "S1", "S2": "S2", "k1": "k1", "k2": "k2", "d": "init_k2", "f": "init_kq1", "C": "comp"},
}
# more sibling pairs: which of the two comes first in a generated argument list is up to the set order of the symbols,
# so several names are needed to see both orders
for _i, (_b1, _b2) in enumerate([("abs", "pow"), ("len", "all"), ("any", "int"), ("map", "set"), ("str", "bin"), ("hex", "oct")], start=3):
    NAMES[f"builtin-siblings-{_i}"] = {"S1": _b1, "S2": _b1 + "_", "k1": _b2, "k2": _b2 + "_", "d": "d1", "f": "fd", "C": "comp"}
SIBLINGS = [n for n in NAMES if n.startswith("builtin-siblings")]
LAWS = ["ma", "ma-comp", "piecewise", "power", "exp", "ln", "fcall", "sqrt", "piconst", "rootsq", "abs", "minmax", "fracpow", "allnames", "compsum"]
STOICH = ["one", "two", "half", "rule"]
K2 = ["const", "rule", "ia"]


def law_expr(law, nm, use_d):
    """Infix (libsbml L3) text and python evaluator of the kinetic law of r1 (S1 -> S2)."""
    S1, k1, d, f = nm["S1"], nm["k1"], nm["d"], nm["f"]
    k = d if use_d else k1

    def val(env):
        return env["d"] if use_d else env["k1"]

    if law == "ma":
        return f"{k} * {S1}", lambda e: val(e) * e["S1"]
    if law == "ma-comp":
        return f"{k} * {S1} * {nm['C']}", lambda e: val(e) * e["S1"] * V
    if law == "piecewise":
        return f"piecewise({k} * {S1}, {S1} > 1, {k} * 0.5)", lambda e: val(e) * e["S1"] if e["S1"] > 1 else val(e) * 0.5
    if law == "power":
        return f"{k} * {S1}^2", lambda e: val(e) * e["S1"] ** 2
    if law == "exp":
        return f"{k} * exp(-{S1})", lambda e: val(e) * math.exp(-e["S1"])
    if law == "ln":
        return f"{k} * ln({S1} + 1)", lambda e: val(e) * math.log(e["S1"] + 1)
    if law == "fcall":
        return f"{f}({S1}, {k})", lambda e: e["S1"] * val(e) / (1 + val(e))
    if law == "sqrt":
        return f"{k} * sqrt({S1})", lambda e: val(e) * math.sqrt(e["S1"])
    # expressions whose simplification is only valid for positive arguments; the states include S1 < S2
    if law == "rootsq":
        return f"{k} * sqrt(({S1} - {nm['S2']})^2)", lambda e: val(e) * abs(e["S1"] - e["S2"])
    if law == "abs":
        return f"{k} * abs({S1} - {nm['S2']})", lambda e: val(e) * abs(e["S1"] - e["S2"])
    if law == "minmax":
        return f"{k} * max({S1}, {nm['S2']}) + min({S1}, 0.75)", lambda e: val(e) * max(e["S1"], e["S2"]) + min(e["S1"], 0.75)
    if law == "fracpow":
        return f"{k} * (({S1} - {nm['S2']})^2)^0.25 + {S1}", lambda e: val(e) * math.sqrt(abs(e["S1"] - e["S2"])) + e["S1"]
    if law == "allnames":  # both species and both parameters in ONE expression
        return (f"{k} * {S1} - {nm['k2']} * {nm['S2']} / 3", lambda e: val(e) * e["S1"] - e["k2"] * e["S2"] / 3)
    if law == "compsum":  # the compartment in a position where the law is not proportional to it
        return (f"{k} * {S1} / ({nm['C']} + 1)", lambda e: val(e) * e["S1"] / (V + 1))
    if law == "piconst":
        return f"{k} * pi * {S1} + exponentiale * 0.125", lambda e: val(e) * math.pi * e["S1"] + math.e * 0.125
    raise ValueError(law)


def write_document(c, path):
    """Write the SBML document for description c; returns the description's reference data."""
    import libsbml

    nm = NAMES[c["names"]]
    doc = libsbml.SBMLDocument(3, 2)
    model = doc.createModel()
    model.setId("m")
    comp = model.createCompartment()
    comp.setId(nm["C"])
    comp.setSize(1.0 if c.get("compia") else V)
    comp.setConstant(True)
    comp.setSpatialDimensions(3)
    init = {"S1": 1.5, "S2": 0.5}  # the numbers written into the document (amount or concentration)
    for s in ("S1", "S2"):
        sp = model.createSpecies()
        sp.setId(nm[s])
        sp.setCompartment(nm["C"])
        sp.setHasOnlySubstanceUnits(bool(c["hosu"]))
        sp.setBoundaryCondition(False)
        sp.setConstant(False)
        if c["init"] == "amount":
            sp.setInitialAmount(init[s])
        else:
            sp.setInitialConcentration(init[s])
    p = model.createParameter()
    p.setId(nm["k1"])
    p.setValue(0.75)
    p.setConstant(True)
    p = model.createParameter()
    p.setId(nm["k2"])
    p.setConstant(c["k2"] != "rule")
    if c["k2"] == "const":
        p.setValue(1.25)
    elif c["k2"] == "rule":
        r = model.createAssignmentRule()
        r.setVariable(nm["k2"])
        r.setMath(libsbml.parseL3Formula(f"2 * {nm['k1']}"))
    else:
        p.setValue(99.0)  # overridden by the initial assignment
        ia = model.createInitialAssignment()
        ia.setSymbol(nm["k2"])
        ia.setMath(libsbml.parseL3Formula(f"{nm['k1']} + 1"))
    if c.get("compia"):
        # the size attribute says 1, the real size (V = 2) comes from an initial assignment
        ia = model.createInitialAssignment()
        ia.setSymbol(nm["C"])
        ia.setMath(libsbml.parseL3Formula(f"{nm['k1']} + 1.25" if c["compia"] == "expr" else "2"))
    if c.get("iachain"):
        # a chain of initial assignments over parameters that also carry a (to be overridden) value attribute:
        # kq1 := k1 + 0.5, kq2 := 2 * kq1, listed in dependency order or the other way round
        for pid, val in (("kq1", 50.0), ("kq2", 60.0)):
            p = model.createParameter()
            p.setId(pid)
            p.setValue(val)
            p.setConstant(True)
        chain = [("kq1", f"{nm['k1']} + 0.5"), ("kq2", "2 * kq1")]
        for sym_, math_ in chain if c["iachain"] == "fwd" else chain[::-1]:
            ia = model.createInitialAssignment()
            ia.setSymbol(sym_)
            ia.setMath(libsbml.parseL3Formula(math_))
    if c["fdef"] or c["law"] == "fcall":
        fd = model.createFunctionDefinition()
        fd.setId(nm["f"])
        fd.setMath(libsbml.parseL3Formula("lambda(a, b, a * b / (1 + b))"))
    if c["ruled"]:
        p = model.createParameter()
        p.setId(nm["d"])
        p.setConstant(False)
        r = model.createAssignmentRule()
        r.setVariable(nm["d"])
        r.setMath(libsbml.parseL3Formula(f"{nm['k1']} * (1 + {nm['S2']})"))
    if c["sia"]:
        ia = model.createInitialAssignment()
        ia.setSymbol(nm["S1"])
        ia.setMath(libsbml.parseL3Formula(f"2 * {nm['k1']}"))
    text, _fn = law_expr(c["law"], nm, c["ruled"])
    r1 = model.createReaction()
    r1.setId(nm.get("r1", "r1"))
    r1.setReversible(False)
    sr = r1.createReactant()
    sr.setSpecies(nm["S1"])
    sr.setStoichiometry(1.0)
    sr.setConstant(True)
    pr = r1.createProduct()
    pr.setSpecies(nm["S2"])
    if c["stoich"] == "rate":
        # a coefficient with dynamics of its own: starts from an initial assignment (k1 + 1), grows at rate 0.5
        pr.setId("sr_p")
        pr.setConstant(False)
        ia_ = model.createInitialAssignment()
        ia_.setSymbol("sr_p")
        ia_.setMath(libsbml.parseL3Formula(f"{nm['k1']} + 1"))
        rr = model.createRateRule()
        rr.setVariable("sr_p")
        rr.setMath(libsbml.parseL3Formula("0.5"))
    elif c["stoich"] in ("rule", "rule-s1"):
        pr.setId("sr_p")
        pr.setConstant(False)
        rr = model.createAssignmentRule()
        rr.setVariable("sr_p")
        # "rule-s1": the coefficient follows a SPECIES (which may itself start from an initial assignment)
        rr.setMath(libsbml.parseL3Formula(f"{nm['k1']} + 1" if c["stoich"] == "rule" else f"{nm['S1']} + 1"))
    else:
        pr.setStoichiometry({"one": 1.0, "two": 2.0, "half": 0.5}[c["stoich"]])
        pr.setConstant(True)
    if c["ruled"]:
        mod = r1.createModifier()
        mod.setSpecies(nm["S2"])
    kl = r1.createKineticLaw()
    kl.setMath(libsbml.parseL3Formula(text))
    r2 = model.createReaction()
    r2.setId(nm.get("r2", "r2"))
    r2.setReversible(False)
    sr = r2.createReactant()
    sr.setSpecies(nm["S2"])
    sr.setStoichiometry(1.0)
    sr.setConstant(True)
    kl = r2.createKineticLaw()
    kl.setMath(libsbml.parseL3Formula(f"{nm['k2']} * {nm['S2']}" + (" * kq2" if c.get("iachain") else "")))
    if doc.checkInternalConsistency() > 0 and any(doc.getError(i).getSeverity() >= libsbml.LIBSBML_SEV_ERROR for i in range(doc.getNumErrors())):
        msgs = [doc.getError(i).getShortMessage() for i in range(doc.getNumErrors())]
        from mc.core import HarnessError

        raise HarnessError(f"generated document is not valid SBML: {msgs[:3]} for {c}")
    libsbml.writeSBMLToFile(doc, str(path))
    return init


def reference(c):
    """Independent reading of the description: symbol values, parameters and species derivatives."""
    nm = NAMES[c["names"]]
    k1 = 0.75
    k2 = {"const": 1.25, "rule": 2 * k1, "ia": k1 + 1}[c["k2"]]
    _t, law = law_expr(c["law"], nm, c["ruled"])
    nu = {"one": 1.0, "two": 2.0, "half": 0.5, "rule": k1 + 1, "rule-s1": None, "rate": None}[c["stoich"]]

    def symbol_initial():
        """Value of the species *symbols* (concentration unless substance-only) at t=0."""
        out = {}
        for s, v in (("S1", 1.5), ("S2", 0.5)):
            amount = v if c["init"] == "amount" else v * V
            out[s] = amount if c["hosu"] else amount / V
        if c["sia"]:
            out["S1"] = 2 * k1  # the initial assignment sets the symbol itself
        return out

    def derivs(sym):
        """d(amount)/dt for both species given symbol values."""
        env = {"S1": sym["S1"], "S2": sym["S2"], "k1": k1, "k2": k2}
        env["d"] = k1 * (1 + sym["S2"])
        v1 = law(env)
        v2 = k2 * sym["S2"] * (2 * (k1 + 0.5) if c.get("iachain") else 1.0)
        nu_ = (sym["nu"] if c["stoich"] == "rate" else sym["S1"] + 1) if nu is None else nu
        return {"S1": -v1, "S2": nu_ * v1 - v2}, {"r1": v1, "r2": v2}

    extra = {"kq1": k1 + 0.5, "kq2": 2 * (k1 + 0.5)} if c.get("iachain") else {}
    return {"k1": k1, "k2": k2, **extra, "symbol_initial": symbol_initial(), "derivs": derivs}


def generate(tier):
    cases = []

    def add(**kw):
        base = {"hosu": 0, "init": "conc", "k2": "const", "fdef": 0, "sia": 0, "ruled": 0, "law": "ma", "stoich": "one", "names": "plain", "session": "single"}
        base.update(kw)
        cases.append(base)

    names_all = list(NAMES)
    if tier in ("thorough", "quick"):  # the whole product takes a few seconds
        for hosu, init, k2, sia, ruled, law, st in it.product((0, 1), ("conc", "amount"), K2, (0, 1), (0, 1), LAWS, STOICH):
            add(hosu=hosu, init=init, k2=k2, sia=sia, ruled=ruled, law=law, stoich=st, fdef=int(law == "fcall"))
        for names, hosu, init, k2, law in it.product(names_all[1:], (0, 1), ("conc", "amount"), K2, LAWS):
            add(names=names, hosu=hosu, init=init, k2=k2, law=law, fdef=int(law == "fcall"))
        if tier == "thorough":  # every identifier variant on the whole description product, with and without chains
            for names, hosu, init, k2, sia, ruled, law, st in it.product(names_all[1:], (0, 1), ("conc", "amount"), K2, (0, 1), (0, 1), LAWS, STOICH):
                add(names=names, hosu=hosu, init=init, k2=k2, sia=sia, ruled=ruled, law=law, stoich=st, fdef=int(law == "fcall"))
            for chain, hosu, init, k2, sia, ruled, law, st in it.product(("fwd", "rev"), (0, 1), ("conc", "amount"), K2, (0, 1), (0, 1), LAWS, STOICH):
                add(iachain=chain, hosu=hosu, init=init, k2=k2, sia=sia, ruled=ruled, law=law, stoich=st, fdef=int(law == "fcall"))
    else:
        for hosu, init, law, st in it.product((0, 1), ("conc", "amount"), LAWS, STOICH):
            add(hosu=hosu, init=init, law=law, stoich=st, fdef=int(law == "fcall"))
        for hosu, init, k2, sia, ruled, law in it.product((0, 1), ("conc", "amount"), K2, (0, 1), (0, 1), ("ma", "piecewise", "fcall")):
            add(hosu=hosu, init=init, k2=k2, sia=sia, ruled=ruled, law=law, fdef=int(law == "fcall"))
        for names, hosu, k2, law in it.product(names_all[1:], (0, 1), K2, ("ma", "exp", "piecewise", "fcall")):
            add(names=names, hosu=hosu, k2=k2, law=law, fdef=int(law == "fcall"))
    for names, hosu, k2, sia, law, chain in it.product(("internal-S1", "internal-k2"), (0, 1), K2, (0, 1), ("ma", "piecewise", "fcall"), (None, "fwd")):
        add(names=names, hosu=hosu, k2=k2, sia=sia, ruled=1, law=law, fdef=1, **({"iachain": chain} if chain else {}))
    for hosu, k2, ruled, law in it.product((0, 1), K2, (0, 1), ("ma", "minmax", "abs", "power", "fcall", "ma-comp")):
        add(names="builtins", hosu=hosu, k2=k2, ruled=ruled, law=law, fdef=int(law == "fcall"))
        add(names="reserved-fn", hosu=hosu, k2=k2, ruled=ruled, law=law, fdef=int(law == "fcall"))
        add(names="builtin-siblings", hosu=hosu, k2=k2, ruled=ruled, law=law, fdef=int(law == "fcall"))
        add(names="builtin-siblings-2", hosu=hosu, k2=k2, ruled=ruled, law=law, fdef=int(law == "fcall"))
    for names, hosu, k2, ruled in it.product(("plain", "builtins", "keyword", "reserved-fn", *SIBLINGS), (0, 1), K2, (0, 1)):
        add(names=names, hosu=hosu, k2=k2, ruled=ruled, law="allnames")
    for hosu, init, st in it.product((0, 1), ("conc", "amount"), ("one", "half")):
        add(hosu=hosu, init=init, stoich=st, law="compsum")
    # a stoichiometric coefficient that follows a species, with and without an initial assignment on that species
    for hosu, init, sia, law, k2 in it.product((0, 1), ("conc", "amount"), (0, 1), ("ma", "ma-comp", "power"), K2):
        add(hosu=hosu, init=init, sia=sia, law=law, k2=k2, stoich="rule-s1")
    for hosu, init, law, k2 in it.product((0, 1), ("conc", "amount"), ("ma", "ma-comp", "power"), K2):
        add(hosu=hosu, init=init, law=law, k2=k2, stoich="rate")
    # compartment whose size attribute (1) is overridden by an initial assignment (2)
    for compia, hosu, init, law, st, names in it.product(("const", "expr"), (0, 1), ("conc", "amount"), ("ma", "ma-comp", "piecewise"), ("one", "half", "rule"), ("plain", "keyword")):
        add(compia=compia, hosu=hosu, init=init, law=law, stoich=st, names=names)
    # chains of initial assignments, listed in and against dependency order
    for chain, hosu, k2, sia, law, names in it.product(("fwd", "rev"), (0, 1), K2, (0, 1), ("ma", "piecewise", "fcall"), ("plain", "keyword", "timelike")):
        add(iachain=chain, hosu=hosu, k2=k2, sia=sia, law=law, names=names, fdef=int(law == "fcall"))
    for session in ("two-stems", "same-stem", "reevaluate-first"):
        for law, names in it.product(("ma", "power", "fcall"), ("plain", "underscore")):
            add(session=session, law=law, names=names, fdef=int(law == "fcall"))
    for session in ("revised-in-place", "same-stem-one-digit"):
        for law, names, hosu in it.product(("ma", "power", "fcall", "piecewise"), ("plain", "keyword"), (0, 1)):
            add(session=session, law=law, names=names, hosu=hosu, fdef=int(law == "fcall"))
    seen, out = set(), []
    for c in cases:
        k = sha12(c)
        if k not in seen:
            seen.add(k)
            out.append(c)
    return out


def _close(a, b, tol=1e-9):
    return abs(a - b) <= tol + tol * max(abs(a), abs(b))


def compare(m, c, txt, nt):
    """Compare an imported model with the description. Returns an outcome or None."""
    ref = reference(c)
    nm = NAMES[c["names"]]
    try:
        ic = m.get_initial_conditions()
        pv = m.get_args()
    except Exception as exc:  # noqa: BLE001
        return outcome(False, "model-fails", symptom=f"evaluation-raised:{type(exc).__name__}", nontrivial=nt, detail=f"{type(exc).__name__}: {str(exc)[:200]} | {txt}")
    # locate each species: under its id (or a consistent renaming of it)
    var_of = {}
    for s in ("S1", "S2"):
        # the id itself first; a consistent renaming only when the id is not there
        cand = [v for v in ic if v == nm[s]] or [v for v in ic if v.strip("_") == nm[s].strip("_") or v.rstrip("_") == nm[s]]
        if not cand:
            return outcome(False, "species-lost", symptom="species-not-found", nontrivial=nt, detail=f"no variable for species {nm[s]!r} among {sorted(ic)} | {txt}")
        var_of[s] = cand[0]
    sym0 = ref["symbol_initial"]
    denotes = {}
    init_bad = None
    for s in ("S1", "S2"):
        amount0 = sym0[s] if c["hosu"] else sym0[s] * V
        conc0 = amount0 / V
        got = float(ic[var_of[s]])
        if f"{var_of[s]}_amount" in m.ids:
            # the importer keeps the amount as a derived quantity next to this variable: the variable is the concentration
            denotes[s] = "conc"
            if not _close(got, conc0):
                # remembered; parameters and derivatives are still compared, so that this cannot hide another difference
                init_bad = init_bad or outcome(False, "wrong-initial", symptom="wrong-initial-value", nontrivial=nt,
                                               detail=f"species {nm[s]} (kept as a concentration, with {var_of[s]}_amount derived from it): imported initial value {got}, the document prescribes the concentration {conc0} | {txt}")
        elif _close(got, conc0) and not _close(got, amount0):
            denotes[s] = "conc"
        elif _close(got, amount0):
            denotes[s] = "amount"
        else:
            return outcome(False, "wrong-initial", symptom="wrong-initial-value", nontrivial=nt,
                           detail=f"species {nm[s]}: imported initial value {got} is neither the amount {amount0} nor the concentration {conc0} the document prescribes | {txt}")
    # parameters
    for pname in ("k1", "k2") + (("kq1", "kq2") if c.get("iachain") else ()):
        nm = {**nm, "kq1": "kq1", "kq2": "kq2"}
        cand = [n for n in pv.index if n == nm[pname]] or [n for n in pv.index if n.rstrip("_") == nm[pname] or n.strip("_") == nm[pname].strip("_")]
        if not cand:
            return outcome(False, "parameter-lost", symptom="parameter-not-found", nontrivial=nt, detail=f"{nm[pname]!r} not among {list(pv.index)} | {txt}")
        if not _close(float(pv[cand[0]]), ref[pname]):
            return outcome(False, "wrong-parameter", symptom="wrong-parameter-value", nontrivial=nt,
                           detail=f"{nm[pname]} = {float(pv[cand[0]])} expected {ref[pname]} | {txt}")
    # derivatives at three states (given as symbol values)
    for sv in ({"S1": 0.5, "S2": 2.0, "nu": 3.0}, {"S1": 2.0, "S2": 0.25, "nu": 0.5}, {"S1": 1.0, "S2": 1.0, "nu": 1.75}):
        d_amount, _fl = ref["derivs"](sv)
        state = dict(ic)
        if c["stoich"] == "rate":
            if "sr_p" not in state:
                return outcome(False, "species-lost", symptom="coefficient-variable-not-found", nontrivial=nt, detail=f"no variable sr_p among {sorted(ic)} | {txt}")
            if not _close(float(ic["sr_p"]), ref["k1"] + 1):
                return outcome(False, "wrong-initial", symptom="wrong-initial-value:coefficient", nontrivial=nt, detail=f"sr_p starts at {ic['sr_p']}, the document says {ref['k1'] + 1} | {txt}")
            state["sr_p"] = sv["nu"]
        for s in ("S1", "S2"):
            amount = sv[s] if c["hosu"] else sv[s] * V
            state[var_of[s]] = amount if denotes[s] == "amount" else amount / V
            # helper variables the importer keeps in step with the species
            for v in state:
                if v != var_of[s] and v.startswith(var_of[s]) and v.endswith("_amount"):
                    state[v] = amount
        try:
            rhs = m.get_right_hand_side(state, 0.0)
        except Exception as exc:  # noqa: BLE001
            return outcome(False, "model-fails", symptom=f"evaluation-raised:{type(exc).__name__}", nontrivial=nt, detail=f"{type(exc).__name__}: {str(exc)[:200]} | {txt}")
        if c["stoich"] == "rate" and not _close(float(rhs["sr_p"]), 0.5):
            return outcome(False, "wrong-derivative", symptom="wrong-derivative:coefficient", nontrivial=nt, detail=f"d sr_p/dt = {float(rhs['sr_p'])}, the rate rule says 0.5 | {txt}")
        for s in ("S1", "S2"):
            e = d_amount[s] if denotes[s] == "amount" else d_amount[s] / V
            g = float(rhs[var_of[s]])
            if not _close(g, e):
                return outcome(False, "wrong-derivative", symptom="wrong-derivative", nontrivial=nt,
                               detail=f"d{nm[s]}/dt ({denotes[s]}) at symbols {sv}: {g} expected {e} | {txt}")
    return init_bad


def check(case):
    import logging
    import warnings

    from mxlpy import sbml

    logging.getLogger("mxlpy").setLevel(logging.CRITICAL)
    logging.getLogger("pysbml").setLevel(logging.CRITICAL)
    logging.getLogger().setLevel(logging.CRITICAL)
    warnings.simplefilter("ignore")
    home = WORK_DIR / "C17" / f"home_{os.getpid()}"
    home.mkdir(parents=True, exist_ok=True)
    os.environ["HOME"] = str(home)
    c = case
    nt = not (c["law"] == "ma" and c["k2"] == "const" and c["stoich"] == "one" and c["names"] == "plain" and not c["sia"] and not c["ruled"] and c["session"] == "single")
    txt = f"{case}"
    tag = sha12(case)
    d1 = home / f"a_{tag}"
    d1.mkdir(exist_ok=True)
    try:
        if c["session"] == "single":
            f = d1 / f"c17_{tag}.xml"
            write_document(c, f)
            try:
                m = sbml.read(f)
            except Exception as exc:  # noqa: BLE001
                return outcome(False, "import-raised", symptom=f"import-raised:{type(exc).__name__}", nontrivial=nt, detail=f"{type(exc).__name__}: {str(exc)[:200]} | {txt}")
            bad = compare(m, c, txt, nt)
            return bad if bad is not None else outcome(True, "as-described", nontrivial=nt)
        # two documents in one session: B differs from A in its law and stoichiometry
        cb = {**c, "law": "exp" if c["law"] != "exp" else "ma", "stoich": "two", "k2": "rule"}
        if c["session"] in ("revised-in-place", "same-stem-one-digit"):
            # the second document differs from the first in ONE digit (stoichiometry 1 -> 2): everything generated from
            # it has the same length, and both are read within the same second
            cb = {**c, "stoich": "two"}
        d2 = home / f"b_{tag}"
        d2.mkdir(exist_ok=True)
        if c["session"] == "revised-in-place":
            fa = fb = d1 / f"model_{tag}.xml"
            write_document(c, fa)
            try:
                ma = sbml.read(fa)
                write_document(cb, fb)
                mb = sbml.read(fb)
            except Exception as exc:  # noqa: BLE001
                return outcome(False, "import-raised", symptom=f"import-raised:{type(exc).__name__}", nontrivial=nt, detail=f"{type(exc).__name__}: {str(exc)[:200]} | {txt}")
            for which, m, cc in (("revised", mb, cb), ("first", ma, c)):
                bad = compare(m, cc, txt + f" [{which} document]", nt)
                if bad is not None:
                    bad["symptom"] = "session-interference:" + str(bad["symptom"])
                    return bad
            return outcome(True, "as-described", nontrivial=nt)
        if c["session"] in ("same-stem", "same-stem-one-digit"):
            fa, fb = d1 / f"same_{tag}.xml", d2 / f"same_{tag}.xml"
        else:
            fa, fb = d1 / f"first_{tag}.xml", d2 / f"second_{tag}.xml"
        write_document(c, fa)
        write_document(cb, fb)
        try:
            ma = sbml.read(fa)
            mb = sbml.read(fb)
        except Exception as exc:  # noqa: BLE001
            return outcome(False, "import-raised", symptom=f"import-raised:{type(exc).__name__}", nontrivial=nt, detail=f"{type(exc).__name__}: {str(exc)[:200]} | {txt}")
        for which, m, cc in (("second", mb, cb), ("first", ma, c)):
            bad = compare(m, cc, txt + f" [{which} document]", nt)
            if bad is not None:
                bad["symptom"] = "session-interference:" + str(bad["symptom"])
                return bad
        if c["session"] == "reevaluate-first":
            ma2 = sbml.read(fa)
            bad = compare(ma2, c, txt + " [first document read again]", nt)
            if bad is not None:
                bad["symptom"] = "session-interference:" + str(bad["symptom"])
                return bad
        return outcome(True, "as-described", nontrivial=nt)
    finally:
        import shutil

        shutil.rmtree(d1, ignore_errors=True)
        shutil.rmtree(home / f"b_{tag}", ignore_errors=True)


PREDICATES = {
    "C17-pysbml-underscore-compartment": lambda c: c["names"] == "underscore",
    "C17-pysbml-constant-names": lambda c: c["names"] == "mathconst",
    "C17-pysbml-substance-only-initial-assignment": lambda c: bool(c["hosu"]) and bool(c["sia"]),
    "C17-pysbml-concentration-under-compartment-initial-assignment": lambda c: bool(c.get("compia")) and not c["hosu"] and c["init"] == "conc",
    "C17-pysbml-compartment-inside-sum": lambda c: c["law"] == "compsum" and not c["hosu"] and c["init"] == "amount",
}


def run(ctx):
    cases = generate(ctx.tier)
    ctx.note(f"{len(cases)} documents / sessions")
    ctx.evaluate(cases, timeout=300)
    import shutil

    shutil.rmtree(WORK_DIR / "C17", ignore_errors=True)
