"""C14 - protocols: each step's parameter values hold exactly over its interval.

All protocols up to 2 steps (quick) / 3 steps (thorough) over a 6-row parameter menu and unequal
durations x every subset (size <= 3) of the candidate time grid {start, boundaries, mid-step points,
beyond the end} x relative/absolute x fresh / continued / continued-after-override simulators, for
both simulate_protocol and simulate_protocol_time_course. Oracle: closed-form piecewise solution of
dx/dt = c - k*x switching exactly at the cumulative boundaries.
"""

from __future__ import annotations

import itertools as it

from mc.core import outcome
from mc.props.c04 import closed_form

ID = "C14"
LEVEL = "exploration"
TECHNIQUE = "bounded-exhaustive enumeration of protocols x time-grid subsets x continuation modes against the closed-form piecewise solution"
LEVEL_TEXT = (
    "Every protocol with 1-2 (quick) / 1-3 (thorough) steps over durations {0.5,1,2} and parameter rows k in {0,1,2} x "
    "c in {0,1} with at least one change, combined with every subset of at most 3 candidate time points (start, every "
    "boundary, every mid-step point, a point beyond the end), absolute or relative, on a fresh simulator, one continued "
    "after simulate(1) and one continued after an override, is run through simulate_protocol_time_course and "
    "simulate_protocol; index, values (closed form, rtol 5e-6), per-segment parameters and step-wise fluxes are checked."
    " Added: start modes 'parameter changed after the earlier simulation', 'second protocol cycle with the same "
    "grid object', 'continuing a simulation at t=500'; requested points 4e-6 / 1e-3 before and after a "
    "boundary; step dictionaries with keys reversed / mixed between steps / naming one parameter only; integer "
    "durations and integer time-point arrays. "
    ' Also: protocols that last a day and more, and a sub-second step after a long one.'
)
LEVEL_NOTE = "trusted: closed form of the linear ODE, scipy LSODA at 1e-8"
RULE = (
    "case = (protocol, form, time-grid subset or points per step, relative flag, start mode); product enumerated "
    "completely. Non-trivial = the protocol has >= 2 steps or the simulator is continued; distinct = distinct tuples."
)
ASSUMPTIONS = ["one-variable linear model", "requested grids whose last point is not later than the start are excluded (refusal semantics are C04's)"]

ROWS = [{"k": k, "c": c} for k in (0.0, 1.0, 2.0) for c in (0.0, 1.0)]
BASE = {"k": 1.0, "c": 1.0}  # equal to one of the protocol rows
X0 = 2.5
RTOL, ATOL = 5e-6, 2e-7


def r_in(c):
    return c


def r_out(k, x):
    return k * x


def make_model():
    from mxlpy import Model

    m = Model()
    m.add_variable("x", X0)
    m.add_parameters(dict(BASE))
    m.add_reaction("v_in", r_in, args=["c"], stoichiometry={"x": 1})
    m.add_reaction("v_out", r_out, args=["k", "x"], stoichiometry={"x": -1})
    return m


def candidates(durs):
    """Relative candidate time points for a protocol with these durations."""
    pts = [0.0]
    t = 0.0
    for d in durs:
        pts.append(t + d / 2)
        pts.append(t + d)
        t += d
    pts.append(t + 0.5)
    return pts


def generate(tier):
    durations = (1.0, 2.0) if tier == "quick" else (0.5, 1.0, 2.0)
    max_steps = 2 if tier == "quick" else 3
    protocols = []
    for n in range(1, max_steps + 1):
        for rows in it.product(range(len(ROWS)), repeat=n):
            if n > 2 and len(set(rows)) == 1:
                continue  # at least one change (two-step protocols also repeat one row: "repeated values")
            if n == 3 and tier == "thorough" and not (rows[0] != rows[1] and rows[1] != rows[2]):
                continue
            for durs in it.product(durations, repeat=n):
                if n == 3 and len(set(durs)) == 1 and durs[0] != 1.0:
                    continue
                if tier == "quick" and n == 2 and durs == (2.0, 2.0):
                    continue  # quick: (1,1), (1,2), (2,1)
                protocols.append((list(rows), list(durs)))
    if tier == "quick":  # a fixed set of three-step protocols
        for rows, durs in (([0, 3, 5], [1.0, 2.0, 1.0]), ([4, 1, 4], [2.0, 1.0, 1.0]), ([2, 2, 3], [1.0, 1.0, 2.0]), ([5, 0, 1], [1.0, 2.0, 2.0])):
            protocols.append((rows, durs))
    cases = []
    for rows, durs in protocols:
        cand = candidates(durs)
        subsets = [list(s) for r in (1, 2, 3) for s in it.combinations(range(len(cand)), r)]
        if tier == "quick" and len(durs) == 3:
            subsets = subsets[::3]
        for start in ("fresh", "continued", "override", "param-changed", "second-cycle", "late"):
            subs_here = subsets
            if start == "late":
                subs_here = [s for s in subsets if len(s) == 1]
            elif tier == "thorough" and len(durs) == 3 and start != "fresh":
                subs_here = subsets[::3]  # three-step protocols: every grid from a fresh start, every third one otherwise
            for sub in subs_here:
                pts = [cand[i] for i in sub]
                if max(pts) <= 0.0:
                    continue
                if tier == "quick" and start in ("param-changed", "second-cycle", "override") and len(sub) == 3:
                    continue  # the history-dependent start modes take all subsets of size <= 2
                for rel in (False, True):
                    cases.append({"rows": rows, "durs": durs, "form": "time_course", "grid": sub, "relative": rel, "start": start})
            for tps in (1, 3):
                cases.append({"rows": rows, "durs": durs, "form": "protocol", "tps": tps, "start": start})
            if len(durs) <= 2 and start != "second-cycle":
                # requested points just before / after a step boundary are points of their own
                for delta, rel in it.product((4e-6, 1e-3), (False, True)):
                    b = durs[0]
                    for pts in ([b - delta], [b + delta], [b - delta, b, b + delta]):
                        if len(durs) == 1 and pts[-1] > b and len(pts) == 1:
                            continue  # outside the protocol
                        cases.append({"rows": rows, "durs": durs, "form": "time_course", "points": pts, "relative": rel, "start": start, "grid": []})
            if len(durs) <= 2 and start in ("fresh", "continued", "override") and all(float(d).is_integer() for d in durs):
                whole = [i for i, c_ in enumerate(cand) if float(c_).is_integer() and c_ > 0]
                for r in (1, 2):
                    for sub in it.combinations(whole, r):
                        for rel in (False, True):
                            cases.append({"rows": rows, "durs": durs, "form": "time_course", "grid": list(sub), "relative": rel, "start": start, "ints": True})
                cases.append({"rows": rows, "durs": durs, "form": "protocol", "tps": 3, "start": start, "ints": True})
            if len(durs) <= 2 and start != "late":
                for cols in ("ck", "k", "mixed"):
                    cases.append({"rows": rows, "durs": durs, "form": "protocol", "tps": 3, "start": start, "cols": cols})
                    for sub in subsets:
                        if len(sub) == 1 and max(cand[i] for i in sub) > 0.0:
                            cases.append({"rows": rows, "durs": durs, "form": "time_course", "grid": sub, "relative": False, "start": start, "cols": cols})
    # protocols that last a day and more (step ends are time deltas: days + seconds), and a sub-second step after a long one
    for rows, durs in (([3, 2], [43200.0, 43200.0]), ([3, 5, 2], [43200.0, 43200.0, 43200.0]), ([5, 3], [90000.0, 1000.5]), ([2], [86400.0]),
                       ([3, 4], [100000.0, 0.5]), ([1, 3], [0.5, 172800.0])):
        cand = candidates(durs)
        for start in ("fresh", "continued"):
            for tps in (1, 3):
                cases.append({"rows": rows, "durs": durs, "form": "protocol", "tps": tps, "start": start})
            for sub in ([i] for i in range(len(cand))):
                if cand[sub[0]] > 0.0:
                    for rel in (False, True):
                        cases.append({"rows": rows, "durs": durs, "form": "time_course", "grid": sub, "relative": rel, "start": start})
    return cases


def _close(a, b):
    return abs(a - b) <= ATOL + RTOL * max(abs(a), abs(b))


def check(case):
    import mxlpy
    import numpy as np
    from mxlpy import Simulator

    nt = len(case["durs"]) >= 2 or case["start"] != "fresh"
    txt = f"{case}"
    # the steps' dictionaries as written (k, c), with the keys the other way round, or naming k only
    shape = {"kc": dict, "ck": lambda r: dict(reversed(list(r.items()))), "k": lambda r: {"k": r["k"]}}[case.get("cols", "kc") if case.get("cols") != "mixed" else "kc"]
    steps = [(d, shape(ROWS[r])) for r, d in zip(case["rows"], case["durs"], strict=True)]
    if case.get("ints"):  # whole-number durations written as Python ints
        steps = [(int(d), r) for d, r in steps]
    if case.get("cols") == "mixed":  # every second step writes its dictionary the other way round
        steps = [(d, dict(reversed(list(r.items()))) if i % 2 else r) for i, (d, r) in enumerate(steps)]
    protocol = mxlpy.make_protocol(steps)
    sim = Simulator(make_model())
    # reference bookkeeping
    T = 0.0
    x = X0
    segs = []  # (t0, x0, t1, params)
    params = dict(BASE)
    if case["start"] == "late":
        # the protocol continues a simulation that is already far along its time axis
        sim.simulate(500.0, steps=2)
        segs.append((0.0, X0, 500.0, dict(BASE)))
        x = closed_form(500.0, 0.0, X0, {**BASE, "a": 0.0})
        T = 500.0
    if case["start"] in ("continued", "override", "param-changed", "second-cycle"):
        sim.simulate(1.0, steps=2)
        segs.append((0.0, X0, 1.0, dict(BASE)))
        x = closed_form(1.0, 0.0, X0, {**BASE, "a": 0.0})
        T = 1.0
        if case["start"] == "override":
            sim.update_variable("x", 2.0)
            x = 2.0
        if case["start"] == "param-changed":
            # changed without simulating: the protocol's own values must still apply from its first step on
            sim.update_parameter("k", 5.0)
            params["k"] = 5.0
    grid_obj = None
    if case["start"] == "second-cycle":
        # a first protocol cycle that uses the very same time-grid object; the second cycle is the one checked
        if case["form"] == "time_course":
            cand0 = candidates(case["durs"])
            rel0 = [cand0[i] for i in case["grid"]]
            grid_obj = np.array(rel0 if case["relative"] else [T + p for p in rel0], dtype=float)
            sim.simulate_protocol_time_course(protocol, grid_obj, time_points_as_relative=case["relative"])
            if not case["relative"]:
                grid_obj = grid_obj + sum(case["durs"])  # absolute points of the second cycle (a new array)
        else:
            sim.simulate_protocol(protocol, time_points_per_step=case["tps"])
        t1 = T
        for d, row in steps:
            params = {**params, **row}
            segs.append((t1, x, t1 + d, dict(params)))
            x = closed_form(t1 + d, t1, x, {**params, "a": 0.0})
            t1 += d
        T = t1
    prior_rows = (len(sim.get_result().unwrap_or_err().variables) if case["start"] == "second-cycle" else 3) if T > 0 else 0
    start = T
    bounds = []
    t = T
    for d, row in steps:
        params = {**params, **row}
        segs.append((t, x, t + d, dict(params)))
        x = closed_form(t + d, t, x, {**params, "a": 0.0})
        t += d
        bounds.append(t)
    end = t
    try:
        if case["form"] == "time_course":
            cand = candidates(case["durs"])
            rel_pts = list(case["points"]) if "points" in case else [cand[i] for i in case["grid"]]
            pts = rel_pts if case["relative"] else [start + p for p in rel_pts]
            arr = grid_obj if (grid_obj is not None and case["relative"]) else np.array(pts, dtype=float)
            if case.get("ints"):  # ... and whole-number time points as an integer array
                arr = np.array([int(round(p)) for p in pts], dtype=int)
            sim.simulate_protocol_time_course(protocol, arr, time_points_as_relative=case["relative"])
            requested = [start + p for p in rel_pts]
        else:
            sim.simulate_protocol(protocol, time_points_per_step=case["tps"])
            requested = []
        res = sim.get_result().unwrap_or_err()
    except Exception as exc:  # noqa: BLE001
        return outcome(False, "raised", symptom=f"raised:{type(exc).__name__}", nontrivial=nt, detail=f"{type(exc).__name__}: {exc} | {txt}")
    frames = res.raw_variables
    times = [float(i) for f in frames for i in f.index]
    xs = [float(v) for f in frames for v in f["x"].to_numpy()]
    for i in range(1, len(times)):
        if not times[i] > times[i - 1]:
            return outcome(False, "axis", symptom="axis-not-increasing", nontrivial=nt, detail=f"{times} | {txt}")

    def count(tt):
        return sum(1 for q in times if abs(q - tt) <= 1e-9 * max(1.0, abs(tt)))

    new_times = times[prior_rows:]
    if case["form"] == "time_course":
        expect = {round(b, 9) for b in bounds} | {round(p, 9) for p in requested if start < p <= end + 1e-12}
        if T == 0.0:
            expect.add(0.0)
        got = {round(q, 9) for q in new_times}
        if got != expect or len(new_times) != len(expect):
            return outcome(False, "wrong-index", symptom="wrong-index", nontrivial=nt,
                           detail=f"rows at {sorted(new_times)} expected exactly {sorted(expect)} | {txt}")
    else:
        for b in bounds:
            if count(b) != 1:
                return outcome(False, "wrong-index", symptom="boundary-missing", nontrivial=nt, detail=f"boundary {b} occurs {count(b)} times in {times} | {txt}")
        if abs(times[-1] - end) > 1e-9:
            return outcome(False, "wrong-index", symptom="wrong-end", nontrivial=nt, detail=f"ends at {times[-1]} expected {end} | {txt}")
    # values
    for tt, xv in zip(times, xs, strict=True):
        e = None
        for i, (t0, x0, t1, p) in enumerate(segs):
            if (t0 < tt <= t1 + 1e-12) or (i == 0 and tt == t0):
                e = closed_form(tt, t0, x0, {**p, "a": 0.0})
                break
        if e is None:
            return outcome(False, "wrong-index", symptom="row-outside-protocol", nontrivial=nt, detail=f"row at {tt} | {txt}")
        if not _close(xv, e):
            return outcome(False, "wrong-value", symptom="wrong-value", nontrivial=nt, detail=f"x({tt})={xv} expected {e} | {txt}")
    # per-segment parameters
    if len(res.raw_parameters) != len(segs):
        return outcome(False, "segments", symptom="segment-count", nontrivial=nt, detail=f"{len(res.raw_parameters)} parameter records, {len(segs)} steps | {txt}")
    for i, (p, (_t0, _x0, _t1, ep)) in enumerate(zip(res.raw_parameters, segs, strict=True)):
        for n in ("k", "c"):
            if abs(float(p[n]) - ep[n]) > 1e-12:
                return outcome(False, "segments", symptom="wrong-segment-parameters", nontrivial=nt, detail=f"segment {i}: {n}={p[n]} expected {ep[n]} | {txt}")
    # fluxes use the step's values
    fl = res.fluxes
    if [float(i) for i in fl.index] != times:
        return outcome(False, "fluxes", symptom="flux-index-differs", nontrivial=nt, detail=txt)
    for tt, xv, (vin, vout) in zip(times, xs, fl[["v_in", "v_out"]].to_numpy(dtype=float), strict=True):
        for i, (t0, _x0, t1, p) in enumerate(segs):
            if (t0 < tt <= t1 + 1e-12) or (i == 0 and tt == t0):
                if abs(vin - p["c"]) > 1e-9 or abs(vout - p["k"] * xv) > 1e-9 * max(1.0, abs(vout)):
                    return outcome(False, "fluxes", symptom="flux-uses-wrong-step-values", nontrivial=nt,
                                   detail=f"fluxes at t={tt}: v_in={vin} v_out={vout}, step values {p}, x={xv} | {txt}")
                break
    return outcome(True, "conforms", nontrivial=nt)


PREDICATES = {}


def run(ctx):
    cases = generate(ctx.tier)
    ctx.note(f"{len(cases)} protocol runs")
    ctx.evaluate(cases, timeout=120)
