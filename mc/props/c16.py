"""C16 - the linear label model tracks the isotopomer model's positional enrichment.

Base networks at a metabolic steady state (pool sizes and fluxes supplied exactly) x ALL position
permutations of the mapped reaction x all vertex labelling states x external enrichments. Oracle:
the positional-enrichment derivative computed from the full isotopomer model built by LabelMapper
with the same label counts and the same maps.
"""

from __future__ import annotations

import itertools as it

from mc.core import outcome

ID = "C16"
LEVEL = "exploration"
TECHNIQUE = "bounded-exhaustive enumeration of base networks x all position permutations x vertex labelling states; differential between LinearLabelMapper and LabelMapper"
LEVEL_TEXT = (
    "Chain (1-3 positions, balanced and with atoms lost to / gained from the outside), merge A(1)+B(2)->C(3), split "
    "C(3)->A(1)+B(2), the same with species written in non-alphabetical order, and dimer 2B<->C networks at an exactly known metabolic "
    "steady state x every permutation of the mapped reaction's positions (incl. the non-involutive 3-cycles) x every "
    "vertex labelling state (each compound entirely in one isotopomer): the right-hand side of the linear label model "
    "must equal the rate of change of each position's enrichment in the isotopomer model built from the same maps "
    "(both sides are linear in the positional marginals, so vertices decide all states). Plus: uniform enrichment equal "
    "to the external pool is stationary for EXT in {0, 0.3, 1}, and no label appears without external or initial label."
    ' Also: three-way splits / merges and one LinearLabelMapper object built again after its maps were changed.'
)
LEVEL_NOTE = "trusted: LabelMapper's isotopomer model (C05 checks it against the base model) as the oracle for the direction and the dynamics; linearity argument for vertex states"
RULE = (
    "case = (network, label counts, permutation, check kind); all permutations enumerated. Non-trivial = the "
    "permutation is not the identity; distinct = distinct tuples."
)
ASSUMPTIONS = ["mass-action base models at steady state; external pool fully labelled in the comparison with the isotopomer model"]


def cin(k):
    return k


def ma1(s, k):
    return k * s


def ma2(a, b, k):
    return k * a * b


def ma3(a, b, c, k):
    return k * a * b * c


def network(case):
    """(base model, label counts, identity maps of auxiliary reactions, concs, fluxes, tested reaction)."""
    import pandas as pd
    from mxlpy import Model

    net, n = case["net"], case["n"]
    m = Model()
    if net == "chain":
        A, B = 0.5, 1.25
        m.add_variables({"A": A, "B": B}).add_parameters({"kin": 1.0, "k1": 2.0, "k2": 0.8})
        m.add_reaction("vin", cin, args=["kin"], stoichiometry={"A": 1})
        m.add_reaction("v1", ma1, args=["A", "k1"], stoichiometry={"A": -1, "B": 1})
        m.add_reaction("vout", ma1, args=["B", "k2"], stoichiometry={"B": -1})
        aux = {"vin": list(range(n["A"])), "vout": list(range(n["B"]))}
        concs = {"A": A, "B": B}
        fluxes = {"vin": 1.0, "v1": 1.0, "vout": 1.0}
    elif net == "merge":
        A, B, C = 0.5, 2.0, 1.25
        m.add_variables({"A": A, "B": B, "C": C}).add_parameters({"ka": 1.0, "kb": 1.0, "k1": 1.0, "k2": 0.8})
        m.add_reaction("vinA", cin, args=["ka"], stoichiometry={"A": 1})
        m.add_reaction("vinB", cin, args=["kb"], stoichiometry={"B": 1})
        m.add_reaction("v1", ma2, args=["A", "B", "k1"], stoichiometry={"A": -1, "B": -1, "C": 1})
        m.add_reaction("vout", ma1, args=["C", "k2"], stoichiometry={"C": -1})
        aux = {"vinA": list(range(n["A"])), "vinB": list(range(n["B"])), "vout": list(range(n["C"]))}
        concs = {"A": A, "B": B, "C": C}
        fluxes = {"vinA": 1.0, "vinB": 1.0, "v1": 1.0, "vout": 1.0}
    elif net in ("merge-rev", "split-rev"):
        # the same reactions with the species named and written in non-alphabetical order
        Q, B, M = 0.5, 2.0, 1.25
        if net == "merge-rev":  # Q(1) + B(2) -> M(3), written Q first
            m.add_variables({"Q": Q, "B": B, "M": M}).add_parameters({"ka": 1.0, "kb": 1.0, "k1": 1.0, "k2": 0.8})
            m.add_reaction("vinQ", cin, args=["ka"], stoichiometry={"Q": 1})
            m.add_reaction("vinB", cin, args=["kb"], stoichiometry={"B": 1})
            m.add_reaction("v1", ma2, args=["Q", "B", "k1"], stoichiometry={"Q": -1, "B": -1, "M": 1})
            m.add_reaction("vout", ma1, args=["M", "k2"], stoichiometry={"M": -1})
            aux = {"vinQ": list(range(n["Q"])), "vinB": list(range(n["B"])), "vout": list(range(n["M"]))}
            fluxes = {"vinQ": 1.0, "vinB": 1.0, "v1": 1.0, "vout": 1.0}
        else:  # M(3) -> Z(1) + C(2), written Z first
            m.add_variables({"M": M, "Z": Q, "C": B}).add_parameters({"kc": 1.0, "k1": 0.8, "ka": 2.0, "kb": 0.5})
            m.add_reaction("vinM", cin, args=["kc"], stoichiometry={"M": 1})
            m.add_reaction("v1", ma1, args=["M", "k1"], stoichiometry={"M": -1, "Z": 1, "C": 1})
            m.add_reaction("voutZ", ma1, args=["Z", "ka"], stoichiometry={"Z": -1})
            m.add_reaction("voutC", ma1, args=["C", "kb"], stoichiometry={"C": -1})
            aux = {"vinM": list(range(n["M"])), "voutZ": list(range(n["Z"])), "voutC": list(range(n["C"]))}
            fluxes = {"vinM": 1.0, "v1": 1.0, "voutZ": 1.0, "voutC": 1.0}
        concs = {v: float(m.get_initial_conditions()[v]) for v in m.get_variable_names()}
    elif net in ("split3", "merge3"):
        # three labelled compounds on one side: D(3) -> A(1) + B(1) + C(1) and the reverse
        if net == "split3":
            m.add_variables({"D": 1.25, "A": 0.5, "B": 2.0, "C": 0.8}).add_parameters({"kd": 1.0, "k1": 0.8, "ka": 2.0, "kb": 0.5, "kc": 1.25})
            m.add_reaction("vinD", cin, args=["kd"], stoichiometry={"D": 1})
            m.add_reaction("v1", ma1, args=["D", "k1"], stoichiometry={"D": -1, "A": 1, "B": 1, "C": 1})
            m.add_reaction("voutA", ma1, args=["A", "ka"], stoichiometry={"A": -1})
            m.add_reaction("voutB", ma1, args=["B", "kb"], stoichiometry={"B": -1})
            m.add_reaction("voutC", ma1, args=["C", "kc"], stoichiometry={"C": -1})
            aux = {"vinD": [0, 1, 2], "voutA": [0], "voutB": [0], "voutC": [0]}
            fluxes = {"vinD": 1.0, "v1": 1.0, "voutA": 1.0, "voutB": 1.0, "voutC": 1.0}
        else:
            m.add_variables({"A": 0.5, "B": 2.0, "C": 0.8, "D": 1.25}).add_parameters({"ka": 1.0, "kb": 1.0, "kc": 1.0, "k1": 1.25, "k2": 0.8})
            m.add_reaction("vinA", cin, args=["ka"], stoichiometry={"A": 1})
            m.add_reaction("vinB", cin, args=["kb"], stoichiometry={"B": 1})
            m.add_reaction("vinC", cin, args=["kc"], stoichiometry={"C": 1})
            m.add_reaction("v1", ma3, args=["A", "B", "C", "k1"], stoichiometry={"A": -1, "B": -1, "C": -1, "D": 1})
            m.add_reaction("vout", ma1, args=["D", "k2"], stoichiometry={"D": -1})
            aux = {"vinA": [0], "vinB": [0], "vinC": [0], "vout": [0, 1, 2]}
            fluxes = {"vinA": 1.0, "vinB": 1.0, "vinC": 1.0, "v1": 1.0, "vout": 1.0}
        concs = {v: float(m.get_initial_conditions()[v]) for v in m.get_variable_names()}
    elif net == "dimer-split":  # A(2n) -> 2 B(n)
        A, B = 0.5, 2.0
        m.add_variables({"A": A, "B": B}).add_parameters({"ka": 1.0, "k1": 2.0, "kb": 1.0})
        m.add_reaction("vinA", cin, args=["ka"], stoichiometry={"A": 1})
        m.add_reaction("v1", ma1, args=["A", "k1"], stoichiometry={"A": -1, "B": 2})
        m.add_reaction("voutB", ma1, args=["B", "kb"], stoichiometry={"B": -1})
        aux = {"vinA": list(range(n["A"])), "voutB": list(range(n["B"]))}
        concs = {"A": A, "B": B}
        fluxes = {"vinA": 1.0, "v1": 1.0, "voutB": 2.0}
    elif net == "dimer-merge":  # 2 B(n) -> C(2n)
        B, C = 2.0, 1.25
        m.add_variables({"B": B, "C": C}).add_parameters({"kb": 2.0, "k1": 0.25, "k2": 0.8})
        m.add_reaction("vinB", cin, args=["kb"], stoichiometry={"B": 1})
        m.add_reaction("v1", ma2, args=["B", "B", "k1"], stoichiometry={"B": -2, "C": 1})
        m.add_reaction("vout", ma1, args=["C", "k2"], stoichiometry={"C": -1})
        aux = {"vinB": list(range(n["B"])), "vout": list(range(n["C"]))}
        concs = {"B": B, "C": C}
        fluxes = {"vinB": 2.0, "v1": 1.0, "vout": 1.0}
    else:  # split
        A, B, C = 0.5, 2.0, 1.25
        m.add_variables({"A": A, "B": B, "C": C}).add_parameters({"kc": 1.0, "k1": 0.8, "ka": 2.0, "kb": 0.5})
        m.add_reaction("vinC", cin, args=["kc"], stoichiometry={"C": 1})
        m.add_reaction("v1", ma1, args=["C", "k1"], stoichiometry={"C": -1, "A": 1, "B": 1})
        m.add_reaction("voutA", ma1, args=["A", "ka"], stoichiometry={"A": -1})
        m.add_reaction("voutB", ma1, args=["B", "kb"], stoichiometry={"B": -1})
        aux = {"vinC": list(range(n["C"])), "voutA": list(range(n["A"])), "voutB": list(range(n["B"]))}
        concs = {"A": A, "B": B, "C": C}
        fluxes = {"vinC": 1.0, "v1": 1.0, "voutA": 1.0, "voutB": 1.0}
    return m, aux, pd.Series(concs), pd.Series(fluxes)


def generate(tier):
    cases = []
    shapes = [("chain", {"A": k, "B": k}) for k in (1, 2, 3)] + [("merge", {"A": 1, "B": 2, "C": 3}), ("split", {"A": 1, "B": 2, "C": 3})]
    # a species with coefficient 2: its molecules' positions must be paired molecule by molecule
    shapes += [("merge-rev", {"Q": 1, "B": 2, "M": 3}), ("split-rev", {"M": 3, "Z": 1, "C": 2})]
    shapes += [("split3", {"D": 3, "A": 1, "B": 1, "C": 1}), ("merge3", {"A": 1, "B": 1, "C": 1, "D": 3})]
    shapes += [("dimer-split", {"A": 2, "B": 1}), ("dimer-merge", {"B": 1, "C": 2}), ("dimer-split", {"A": 4, "B": 2}), ("dimer-merge", {"B": 2, "C": 4})]
    # atoms lost to / gained from the outside: A(3)->B(2) drains one substrate position (the map's tail names it),
    # A(2)->B(3) fills one product position from the external pool
    shapes += [("chain", {"A": 3, "B": 2}), ("chain", {"A": 2, "B": 1}), ("chain", {"A": 2, "B": 3}), ("chain", {"A": 1, "B": 2})]
    if tier == "thorough":
        shapes += [("chain", {"A": 4, "B": 2}), ("chain", {"A": 2, "B": 4}), ("chain", {"A": 4, "B": 3}),
                   ("chain", {"A": 4, "B": 4}), ("merge", {"A": 2, "B": 2, "C": 4}), ("split", {"A": 2, "B": 2, "C": 4}), ("merge", {"A": 2, "B": 1, "C": 3})]
    for net, n in shapes:
        total = max(n.values())
        for perm in it.permutations(range(total)):
            cases.append({"net": net, "n": n, "map": list(perm), "kind": "dynamics"})
            cases.append({"net": net, "n": n, "map": list(perm), "kind": "stationary"})
    # the same mapper object re-used after its map was changed
    for net, n in (("chain", {"A": 3, "B": 3}), ("merge", {"A": 1, "B": 2, "C": 3}), ("split", {"A": 1, "B": 2, "C": 3})):
        for first, second in it.permutations(list(it.permutations(range(3))), 2):
            cases.append({"net": net, "n": n, "map": list(second), "first_map": list(first), "kind": "dynamics"})
    return cases


def _close(a, b, tol=1e-10):
    return abs(a - b) <= tol + tol * max(abs(a), abs(b))


def check(case):
    from mxlpy import LabelMapper, LinearLabelMapper

    base, aux, concs, fluxes = network(case)
    n = case["n"]
    maps = {**aux, "v1": case["map"]}
    nt = case["map"] != sorted(case["map"])
    txt = f"{case}"
    try:
        if case.get("first_map") is not None:
            # one mapper object, built once with another map for v1, then given this map and built again
            mapper = LinearLabelMapper(base, label_variables=dict(n), label_maps={**aux, "v1": list(case["first_map"])})
            mapper.build_model(concs=concs, fluxes=fluxes, external_label=1.0)
            mapper.label_maps["v1"] = list(case["map"])
            lin1 = mapper.build_model(concs=concs, fluxes=fluxes, external_label=1.0)
        else:
            lin1 = LinearLabelMapper(base, label_variables=dict(n), label_maps=maps).build_model(concs=concs, fluxes=fluxes, external_label=1.0)
    except Exception as exc:  # noqa: BLE001
        return outcome(False, "linear-build-raised", symptom=f"linear-build-raised:{type(exc).__name__}", nontrivial=nt, detail=f"{type(exc).__name__}: {exc} | {txt}")
    lin_vars = lin1.get_variable_names()
    if case["kind"] == "stationary":
        for ext in (0.0, 0.3, 1.0):
            lm = LinearLabelMapper(base, label_variables=dict(n), label_maps=maps).build_model(concs=concs, fluxes=fluxes, external_label=ext)
            rhs = lm.get_right_hand_side(dict.fromkeys(lin_vars, ext), 0.0)
            for v in lin_vars:
                if not _close(float(rhs[v]), 0.0, 1e-12):
                    return outcome(False, "not-stationary", symptom="uniform-enrichment-not-stationary", nontrivial=nt,
                                   detail=f"EXT={ext}: d{v}/dt={float(rhs[v])} at uniform enrichment {ext} | {txt}")
        # no external and no initial label: nothing appears (right-hand side and a short trajectory)
        from mxlpy import Simulator

        lm0 = LinearLabelMapper(base, label_variables=dict(n), label_maps=maps).build_model(concs=concs, fluxes=fluxes, external_label=0.0)
        ic = lm0.get_initial_conditions()
        if any(abs(v) > 0 for v in ic.values()):
            return outcome(False, "label-from-nothing", symptom="nonzero-initial-label", nontrivial=nt, detail=f"{ic} | {txt}")
        res = Simulator(lm0).simulate(2.0, steps=4).get_result().unwrap_or_err().variables
        if float(res.abs().to_numpy().max()) > 1e-12:
            return outcome(False, "label-from-nothing", symptom="label-appears-without-source", nontrivial=nt, detail=f"max {float(res.abs().to_numpy().max())} | {txt}")
        return outcome(True, "stationary", nontrivial=nt)

    iso = LabelMapper(base, label_variables=dict(n), label_maps=maps).build_model()
    iso_vars = iso.get_variable_names()
    names = {cpd: [f"{cpd}__{''.join(p)}" for p in it.product("01", repeat=k)] for cpd, k in n.items()}
    tot = {cpd: float(concs[cpd]) for cpd in n}
    cpds = list(n)
    checked = 0
    for combo in it.product(*[range(len(names[c])) for c in cpds]):
        state = dict.fromkeys(iso_vars, 0.0)
        enr = {}
        for cpd, vi in zip(cpds, combo, strict=True):
            nm = names[cpd][vi]
            state[nm] = tot[cpd]
            bits = nm.split("__")[1]
            for i, b in enumerate(bits):
                enr[f"{cpd}__{i}"] = float(b)
        r_iso = iso.get_right_hand_side(state, 0.0)
        r_lin = lin1.get_right_hand_side({v: enr[v] for v in lin_vars}, 0.0)
        for cpd, k in n.items():
            s = sum(float(r_iso[nm]) for nm in names[cpd])
            if not _close(s, 0.0, 1e-10):
                from mc.core import HarnessError

                b = float(base.get_right_hand_side({k_: float(v_) for k_, v_ in concs.items()}, 0.0)[cpd])
                if not _close(b, 0.0, 1e-10):
                    raise HarnessError(f"base network is not at its metabolic steady state: d{cpd}/dt = {b} | {txt}")
                # the base network rests, the isotopomer model built from it does not: the oracle itself is broken
                return outcome(False, "differs", symptom="isotopomer-model-not-at-rest", nontrivial=nt,
                               detail=f"the base model is at its steady state but the isotopomers of {cpd} change in sum by {s} at vertex {combo} | {txt}")
            for i in range(k):
                d_iso = sum(float(r_iso[nm]) for nm in names[cpd] if nm.split("__")[1][i] == "1") / tot[cpd]
                d_lin = float(r_lin[f"{cpd}__{i}"])
                if not _close(d_lin, d_iso):
                    # does the linear model agree with the isotopomer model built from the inverse map?
                    inv = [case["map"].index(j) for j in range(len(case["map"]))]
                    iso_inv = LabelMapper(base, label_variables=dict(n), label_maps={**aux, "v1": inv}).build_model()
                    r_inv = iso_inv.get_right_hand_side(state, 0.0)
                    d_inv = sum(float(r_inv[nm]) for nm in names[cpd] if nm.split("__")[1][i] == "1") / tot[cpd]
                    sym = "linear-model-reads-map-inverted" if _close(d_lin, d_inv) else "enrichment-rate-differs"
                    return outcome(False, "differs", symptom=sym, nontrivial=nt,
                                   detail=f"d enrichment({cpd},{i})/dt: linear {d_lin}, isotopomer model {d_iso} (with inverse map {d_inv}) at vertex {combo} | {txt}")
        checked += 1
    return outcome(True, "enrichment-rates-equal", nontrivial=nt, extra={"vertex_states": checked})


def _non_involution(case):
    m = case["map"]
    return any(m[m[i]] != i for i in range(len(m)))


PREDICATES = {}


def run(ctx):
    cases = generate(ctx.tier)
    ctx.note(f"{len(cases)} cases ({sum(1 for c in cases if _non_involution(c))} with a non-involutive permutation)")
    ctx.evaluate(cases, timeout=600)
