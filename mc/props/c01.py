"""C01 - derivatives = stoichiometry x rates over fully resolved values.

Bounded-exhaustive product of model-shape features x state/time grid x 8 query entry points,
compared with the independent demand-driven evaluator (mc/refeval.py).
"""

from __future__ import annotations

import itertools as it
import math

from mc import expr as X
from mc.core import outcome
from mc.refeval import Ref

ID = "C01"
LEVEL = "exploration"
TECHNIQUE = "bounded-exhaustive enumeration of model shapes x states x entry points against an independent evaluator"
LEVEL_TEXT = (
    "Every model in the full Cartesian product of 11 shape features is built through the public API and queried "
    "through all 8 entry points at 6 (state,time) points; every number is compared with a demand-driven reference "
    "evaluator written from the statement. Exhaustive within the product; not a proof for shapes outside it."
    " Added dimensions: coefficients that are exactly zero (literal / computed), the shipped polynomial "
    "surrogate, a user-defined surrogate whose predict() returns its mapping in another order, frames / "
    "mappings with their columns / keys in other orders, and the same model asked again after update_parameter "
    "/ scale_parameter. "
)
LEVEL_NOTE = "trusted: CPython/numpy/pandas, mc/refeval.py (self-tested), finite state grid"
RULE = (
    "full Cartesian product of 11 model-shape slots (derived chain depth, rate-dependent derived, "
    "coefficient kind, surrogate shape, data, time dependence, untouched variable, declaration order, "
    "initial assignment, readout, second reaction on the same variable); each model is evaluated at 6 "
    "(state,time) points through 8 entry points. A case is non-trivial when its model has at least one "
    "derived quantity, surrogate or non-numeric coefficient (i.e. is not plain mass action); distinct = "
    "distinct slot tuples."
)
ASSUMPTIONS = [
    "reference evaluator mc/refeval.py (self-tested against hand-computed values at start-up)",
    "finite grid of states/times; functions are polynomial/rational in the state so a generic grid decides wiring errors, not every numeric coincidence",
]

N, V = X.name, X.num

SLOTS_THOROUGH = {
    "depth": [0, 1, 2, 3],
    "ratedep": [0, 1],
    "coef": ["num", "frac", "pname", "pcomp", "scomp", "dcomp", "tcomp", "zero", "czero"],
    "surr": ["none", "flux", "flux+var", "argderived", "poly", "custom"],
    "data": [0, 1],
    "time": ["none", "rate", "derived"],
    "untouched": ["absent", "first", "last"],
    "order": ["dep", "rev"],
    "ia": ["none", "par_from_var", "var_from_derived"],
    "readout": [0, 1],
    "double": [0, 1],
    "scoef": ["num", "pcomp", "scomp", "tcomp"],
}
SLOTS_QUICK = {
    "depth": [0, 3],
    "ratedep": [0, 1],
    "coef": ["num", "frac", "pname", "pcomp", "scomp", "dcomp", "tcomp", "zero", "czero"],
    "surr": ["none", "flux+var", "argderived", "poly", "custom"],
    "data": [0, 1],
    "time": ["none", "derived"],
    "untouched": ["absent", "last"],
    "order": ["dep", "rev"],
    "ia": ["none", "var_from_derived"],
    "readout": [1],
    "double": [0, 1],
    "scoef": ["num", "scomp", "tcomp"],
}

# (state multipliers, time): none equals the initial state or t = 0
POINTS = [
    ({"x": 2.0, "y": 0.25, "z": 3.0, "u": 1.5, "w": 0.75}, 0.5),
    ({"x": 0.5, "y": 4.0, "z": 1.25, "u": 2.5, "w": 3.0}, 1.25),
    ({"x": 3.0, "y": 1.5, "z": 0.125, "u": 0.25, "w": 2.0}, 2.0),
    ({"x": 2.0, "y": 0.25, "z": 3.0, "u": 1.5, "w": 0.75}, 2.75),
    ({"x": 0.5, "y": 4.0, "z": 1.25, "u": 2.5, "w": 3.0}, 3.5),
    ({"x": 3.0, "y": 1.5, "z": 0.125, "u": 0.25, "w": 2.0}, 4.25),
]


def make_spec(f):
    """Spec (declaration in dependency order) for one slot tuple."""
    decl = []
    var = lambda n, v: decl.append({"kind": "variable", "name": n, "value": v})  # noqa: E731
    par = lambda n, v: decl.append({"kind": "parameter", "name": n, "value": v})  # noqa: E731
    der = lambda n, a, e: decl.append({"kind": "derived", "name": n, "args": a, "expr": e})  # noqa: E731

    if f["untouched"] == "first":
        var("u", 3.0)
    var("x", 1.0)
    var("y", 2.0)
    var("z", 0.5)
    par("k1", 0.7)
    par("k2", 1.3)
    if f["data"]:
        decl.append({"kind": "data", "name": "D", "values": {"a": 2.0, "b": 3.0}})

    # derived chain
    top = None
    if f["depth"] >= 1:
        if f["time"] == "derived":
            der("d1", ["x", "k1", "time"], ["add", ["mul", N("x"), N("k1")], ["add", V(1.0), N("time")]])
        else:
            der("d1", ["x", "k1"], ["add", ["mul", N("x"), N("k1")], V(1.0)])
        top = "d1"
    elif f["time"] == "derived":
        der("dt", ["time", "y"], ["add", N("time"), N("y")])
    if f["depth"] >= 2:
        der("d2", ["d1", "y"], ["add", N("d1"), N("y")])
        top = "d2"
    if f["depth"] >= 3:
        der("d3", ["k2", "d2"], ["mul", N("d2"), N("k2")])
        top = "d3"

    # v1: x -> y
    v1_args = ["x", "k1"]
    v1_expr = ["mul", N("k1"), N("x")]
    if top:
        v1_args.append(top)
        v1_expr = ["mul", v1_expr, N(top)]
    elif f["time"] == "derived":
        v1_args.append("dt")
        v1_expr = ["mul", v1_expr, N("dt")]
    if f["time"] == "rate":
        v1_args.append("time")
        v1_expr = ["add", v1_expr, ["mul", V(0.5), N("time")]]
    if f["data"]:
        der("dd", ["D", "x"], ["add", ["mul", ["idx", N("D"), "a"], N("x")], ["idx", N("D"), "b"]])
        v1_args.append("dd")
        v1_expr = ["add", v1_expr, N("dd")]
    if f["ia"] == "par_from_var":
        decl.append({"kind": "parameter", "name": "q", "ia": {"args": ["x", "y"], "expr": ["add", ["mul", N("x"), V(2.0)], N("y")]}})
        v1_args.append("q")
        v1_expr = ["mul", v1_expr, N("q")]
    v1_st = {"x": -1, "y": 1}
    if f["ia"] == "var_from_derived":
        der("di", ["k1", "x"], ["add", N("k1"), N("x")])
        decl.append({"kind": "variable", "name": "w", "ia": {"args": ["di"], "expr": ["mul", N("di"), V(3.0)]}})
        v1_st["w"] = 1
        v1_args.append("w")
        v1_expr = ["add", v1_expr, ["mul", V(0.25), N("w")]]
    decl.append({"kind": "reaction", "name": "v1", "args": v1_args, "expr": v1_expr, "stoich": v1_st})

    # surrogate
    v2_args = ["y", "k2"]
    v2_expr = ["mul", N("k2"), N("y")]
    if f["surr"] != "none":
        s_args = ["x", "z"]
        if f["surr"] == "argderived":
            der("dsa", ["z", "k1"], ["mul", N("z"), N("k1")])
            s_args = ["x", "dsa"]
        a0, a1 = s_args
        outputs = ["sa"]
        exprs = [["add", ["mul", N(a0), V(0.3)], ["mul", N(a1), V(0.2)]]]
        poly = None
        if f["surr"] == "poly":
            # the shipped polynomial surrogate (one argument, one output): 0.5 + 0.3 x + 0.25 x^2
            s_args = ["x"]
            poly = [0.5, 0.3, 0.25]
            exprs = [["add", ["add", V(0.5), ["mul", V(0.3), N("x")]], ["mul", V(0.25), ["mul", N("x"), N("x")]]]]
        if f["surr"] in ("flux+var", "argderived", "custom"):
            outputs.append("sb")
            exprs.append(["mul", N(a0), N(a1)])
        # coefficient of the surrogate flux (a second code path in the cache builder)
        sc = {
            "num": -1.0,
            "pcomp": {"args": ["k1", "k2"], "expr": ["sub", N("k1"), N("k2")]},
            "scomp": {"args": ["y"], "expr": ["mul", N("y"), V(-0.5)]},
            "tcomp": {"args": ["time", "k2"], "expr": ["sub", N("time"), N("k2")]},
        }[f.get("scoef", "num")]
        decl.append(
            {"kind": "surrogate", "name": "s", "args": s_args, "outputs": outputs, "exprs": exprs,
             "stoich": {"sa": {"z": sc, "x": 2.0}}, **({"poly": poly} if poly else {}), **({"custom": True} if f["surr"] == "custom" else {})}
        )
        if "sb" in outputs:
            der("ds", ["sb", "k1"], ["add", N("sb"), N("k1")])
            v2_args.append("ds")
            v2_expr = ["add", v2_expr, N("ds")]
    if f["ratedep"]:
        der("dr", ["v1", "y"], ["add", ["mul", N("v1"), V(2.0)], N("y")])
        v2_args.append("dr")
        v2_expr = ["add", v2_expr, ["mul", V(0.1), N("dr")]]

    ck = f["coef"]
    if ck == "num":
        coef = 2
    elif ck == "frac":
        coef = 0.5
    elif ck == "pname":
        coef = "k2"
    elif ck == "pcomp":
        coef = {"args": ["k1", "k2"], "expr": ["add", N("k1"), N("k2")]}
    elif ck == "scomp":
        coef = {"args": ["x"], "expr": ["mul", N("x"), V(2.0)]}
    elif ck == "dcomp":
        der("dc", ["x", "k2"], ["add", N("x"), N("k2")])
        coef = {"args": ["dc"], "expr": ["mul", N("dc"), V(1.5)]}
    elif ck == "tcomp":
        coef = {"args": ["time", "k1"], "expr": ["add", N("time"), N("k1")]}
    elif ck == "zero":
        coef = 0.0  # a reaction listed for z without moving it
    elif ck == "czero":
        coef = {"args": ["k1"], "expr": ["sub", N("k1"), N("k1")]}  # computed, and exactly zero
    else:
        raise ValueError(ck)
    decl.append({"kind": "reaction", "name": "v2", "args": v2_args, "expr": v2_expr, "stoich": {"y": -1, "z": coef}})
    if f["double"]:
        # a second reaction touching the same variables: accumulation must add, not overwrite
        decl.append({"kind": "reaction", "name": "v3", "args": ["z", "k1"], "expr": ["mul", N("z"), N("k1")],
                     "stoich": {"z": -1, "y": 0.5}})
    if f["readout"]:
        decl.append({"kind": "readout", "name": "ro", "args": ["x", "y"], "expr": ["div", N("x"), ["add", N("x"), N("y")]]})
    if f["untouched"] == "last":
        var("u", 3.0)
    if f["order"] == "rev":
        decl.reverse()
    return {"decl": decl}


def generate(tier):
    slots = SLOTS_QUICK if tier == "quick" else SLOTS_THOROUGH
    keys = list(slots)
    out = []
    for combo in it.product(*slots.values()):
        c = dict(zip(keys, combo, strict=True))
        if c["surr"] == "none" and c["scoef"] != "num":
            continue  # no surrogate, nothing to vary
        if tier == "quick" and c["scoef"] != "num" and (c["data"] or c["untouched"] != "absent"):
            continue
        out.append(c)
    return out


def close(a, b, tol=1e-12):
    if isinstance(a, float) and isinstance(b, float) and math.isnan(a) and math.isnan(b):
        return True
    return abs(a - b) <= tol + tol * max(abs(a), abs(b))


def check(case):
    import pandas as pd

    from mc.spec import build

    spec = make_spec(case)
    nontrivial = not (
        case["depth"] == 0 and case["surr"] == "none" and case["coef"] in ("num", "frac") and not case["ratedep"]
        and not case["data"] and case["time"] == "none" and case["ia"] == "none"
    )
    ref = Ref(spec)
    try:
        m = build(spec)
        var_names = ref.var_names
        if m.get_variable_names() != var_names:
            return outcome(False, "wrong-order", symptom="wrong-order", detail="variable names not in declaration order")
        flux_names = ref.flux_names()
        # initial conditions and the default (no-argument) forms
        ic = m.get_initial_conditions()
        ric = ref.initial_conditions()
        for v in var_names:
            if not close(float(ic[v]), ric[v]):
                return outcome(False, "wrong-value", symptom="wrong-initial", detail=f"initial {v}: {ic[v]} != {ric[v]}")
        d0 = m.get_right_hand_side()
        r0 = ref.rhs(ric, 0.0)
        for v in var_names:
            if not close(float(d0[v]), r0[v]):
                return outcome(False, "wrong-value", symptom="wrong-value:rhs-default", detail=f"default rhs {v}: {d0[v]} != {r0[v]}")

        rows = {}
        rhs_rows = {}
        all_rows = {}
        for st_all, t in POINTS:
            state = {v: st_all[v] for v in var_names}
            exp_all = ref.all_values(state, t, readouts=True)
            exp_rhs = ref.rhs(state, t)
            rows[t] = state
            rhs_rows[t] = exp_rhs
            all_rows[t] = exp_all
            # 1 positional call
            got = m(t, [state[v] for v in var_names])
            if len(got) != len(var_names):
                return outcome(False, "wrong-shape", symptom="wrong-shape:call", detail=f"len {len(got)}")
            for v, g in zip(var_names, got, strict=True):
                if not close(float(g), exp_rhs[v]):
                    return outcome(False, "wrong-value", symptom="wrong-value:call", detail=f"model(t,y)[{v}]={g} expected {exp_rhs[v]} at t={t} state={state}")
            if "u" in var_names:
                g = got[var_names.index("u")]
                if g != 0.0:
                    return outcome(False, "wrong-value", symptom="untouched-nonzero", detail=f"u: {g}")
            # the named forms take a mapping: its key order is free (reversed here on every second point)
            if len(rows) % 2 == 0:
                state = dict(reversed(list(state.items())))
            # 2 named rhs
            rhs = m.get_right_hand_side(state, t)
            if list(rhs.index) != var_names:
                return outcome(False, "wrong-order", symptom="wrong-order:rhs", detail=str(list(rhs.index)))
            for v in var_names:
                if not close(float(rhs[v]), exp_rhs[v]):
                    return outcome(False, "wrong-value", symptom="wrong-value:rhs", detail=f"rhs[{v}]={rhs[v]} expected {exp_rhs[v]} at t={t}")
            # 3 fluxes
            fl = m.get_fluxes(state, t)
            if list(fl.index) != flux_names:
                return outcome(False, "wrong-order", symptom="wrong-order:fluxes", detail=f"{list(fl.index)} != {flux_names}")
            for r in flux_names:
                if not close(float(fl[r]), exp_all[r]):
                    return outcome(False, "wrong-value", symptom="wrong-value:fluxes", detail=f"flux[{r}]={fl[r]} expected {exp_all[r]} at t={t}")
            # 4 full argument table
            args = m.get_args(state, t, include_readouts=True)
            exp_names = set(exp_all)
            if set(args.index) != exp_names:
                return outcome(False, "wrong-names", symptom="wrong-names:args", detail=f"{sorted(set(args.index) ^ exp_names)}")
            for n in exp_names:
                if not close(float(args[n]), exp_all[n]):
                    return outcome(False, "wrong-value", symptom="wrong-value:args", detail=f"args[{n}]={args[n]} expected {exp_all[n]} at t={t}")
            # 8 stoichiometric matrix: N . v = dx/dt
            Nm = m.get_stoichiometries(state, t)
            for v in var_names:
                tot = 0.0
                if v in Nm.index:
                    for r in Nm.columns:
                        tot += float(Nm.loc[v, r]) * exp_all[r]
                if not close(tot, exp_rhs[v], 1e-11):
                    return outcome(False, "wrong-value", symptom="wrong-value:stoichiometries", detail=f"(N.v)[{v}]={tot} expected {exp_rhs[v]} at t={t}")

        # time-course forms: row label is the time. The frame's columns are *named*: their order is free
        # (declaration order, reversed, rotated) and must not change any number
        col_orders = [list(var_names)]
        for alt in (list(reversed(var_names)), var_names[1:] + var_names[:1]):
            if alt not in col_orders:
                col_orders.append(alt)
        for cols in col_orders:
            frame = pd.DataFrame(rows).T
            frame = frame[cols]
            atc = m.get_args_time_course(frame, include_readouts=True)
            if list(atc.index) != list(frame.index):
                return outcome(False, "wrong-index", symptom="wrong-index:args_tc", detail=str(list(atc.index)))
            for t in frame.index:
                for n, e in all_rows[t].items():
                    if n == "time":
                        continue
                    if n not in atc.columns:
                        return outcome(False, "wrong-names", symptom="wrong-names:args_tc", detail=n)
                    if not close(float(atc.loc[t, n]), e):
                        return outcome(False, "wrong-value", symptom="wrong-value:args_tc", detail=f"args_tc[{t},{n}]={atc.loc[t, n]} expected {e}")
            ftc = m.get_fluxes_time_course(frame)
            if list(ftc.columns) != flux_names:
                return outcome(False, "wrong-order", symptom="wrong-order:fluxes_tc", detail=str(list(ftc.columns)))
            for t in frame.index:
                for r in flux_names:
                    if not close(float(ftc.loc[t, r]), all_rows[t][r]):
                        return outcome(False, "wrong-value", symptom="wrong-value:fluxes_tc", detail=f"fluxes_tc[{t},{r}]={ftc.loc[t, r]} expected {all_rows[t][r]}")
            rtc = m.get_right_hand_side_time_course(m.get_args_time_course(frame))
            if list(rtc.columns) != var_names:
                return outcome(False, "wrong-order", symptom="wrong-order:rhs_tc", detail=str(list(rtc.columns)))
            for t in frame.index:
                for v in var_names:
                    if not close(float(rtc.loc[t, v]), rhs_rows[t][v]):
                        return outcome(False, "wrong-value", symptom="wrong-value:rhs_tc", detail=f"rhs_tc[{t},{v}]={rtc.loc[t, v]} expected {rhs_rows[t][v]}")
        # the model after its parameter values were changed is a well-formed model too: every number above came from
        # a warm model, now two parameters get new values (one by update, one by scaling) and a state is asked again
        import copy

        spec2 = copy.deepcopy(spec)
        plain = [c for c in spec2["decl"] if c["kind"] == "parameter" and "value" in c]
        if len(plain) >= 2:
            plain[0]["value"] = plain[0]["value"] * 1.5 + 0.25
            plain[1]["value"] = plain[1]["value"] * 0.5
            m.update_parameter(plain[0]["name"], plain[0]["value"])
            m.scale_parameter(plain[1]["name"], 0.5)
            ref2 = Ref(spec2)
            st_all, t = POINTS[1]
            state = {v: st_all[v] for v in var_names}
            exp2 = ref2.rhs(state, t)
            got2 = m(t, [state[v] for v in var_names])
            named2 = m.get_right_hand_side(state, t)
            for v, g in zip(var_names, got2, strict=True):
                if not close(float(g), exp2[v]) or not close(float(named2[v]), exp2[v]):
                    return outcome(False, "wrong-value", symptom="wrong-value:after-parameter-update", nontrivial=nontrivial,
                                   detail=f"after update_parameter({plain[0]['name']}) and scale_parameter({plain[1]['name']}): d{v}/dt = {g} / {named2[v]} expected {exp2[v]}")
            exp_all2 = ref2.all_values(state, t, readouts=True)
            args2 = m.get_args(state, t, include_readouts=True)
            for n, e in exp_all2.items():
                if not close(float(args2[n]), e):
                    return outcome(False, "wrong-value", symptom="wrong-value:after-parameter-update", nontrivial=nontrivial,
                                   detail=f"after the parameter updates: args[{n}]={args2[n]} expected {e}")
    except Exception as exc:  # the model is well-formed: any exception is a failure of the property
        import traceback

        tb = traceback.extract_tb(exc.__traceback__)
        where = next((f"{fr.name}" for fr in reversed(tb) if "/mxlpy/" in fr.filename), "?")
        top = next((f"{fr.name}" for fr in tb if "/mxlpy/" in fr.filename), "?")
        return outcome(False, "exception", symptom=f"exception:{type(exc).__name__}:{top}", nontrivial=nontrivial,
                       detail=f"{type(exc).__name__}: {exc} (in {where})")
    return outcome(True, "equal", nontrivial=nontrivial)


def _tcomp_tc(case):
    return case["coef"] == "tcomp"


PREDICATES = {
    "C01-rhs-time-course-time-coefficient": _tcomp_tc,
}


def run(ctx):
    cases = generate(ctx.tier)
    ctx.note(f"product size {len(cases)} models x {len(POINTS)} points x 8 entry points")
    ctx.evaluate(cases)
    ctx.coverage_extra["models"] = len(cases)
    ctx.coverage_extra["points_per_model"] = len(POINTS)
    ctx.coverage_extra["entry_points"] = 8
