"""C19 - result caching is transparent and survives interruption.

Crash-point enumeration through the file-system shim of mc/faultfs.py: one clean, logged caching run
gives the event list of the write path; then the run is killed at EVERY point (before each event,
and after every byte offset of every write), the directory is left exactly as a kill would leave
it, and the real parallelise/scan is re-run on it. Per-key crash states are combined into products
for parallel reruns, and a few plans are executed for real (SIGKILL in a child process) to validate
the simulated states.
"""

from __future__ import annotations

import itertools as it
import json
import os
import re
import shutil
import subprocess
import sys
from pathlib import Path

from mc.core import ROOT, WORK_DIR, HarnessError, outcome, sha12
from mc.faultfs import Crash, FaultFS, snapshot

ID = "C19"
LEVEL = "fault_enumeration"
TECHNIQUE = "exhaustive crash-point enumeration of the cache write path (every FS event and every byte offset) with recovery runs; per-key state products for parallel reruns; all operation histories up to depth 4/5 on one cache directory against a key->value reference model"
LEVEL_TEXT = (
    "For 5 key sets (ints, strings, a float, tuple keys as produced by MultiIndex rows, a str-colliding pair) and 3 "
    "result kinds (dict, DataFrame, Simulation through scan.time_course) a clean run under the file-system shim yields "
    "the event list; the caching run is then killed before every event and after every byte offset of every write, for "
    "every key position; after each crash a rerun must return the uncached results for every key and a third run must "
    "return them without calling the function. Per-key crash states {absent, opened-empty, mid-write, complete-not-"
    "published, published} are combined (all products for 3 keys) and rerun in parallel with 2 workers; 3 plans are "
    "replayed with a real SIGKILL and the directory must equal the simulated one. Transparency over time: every "
    "history of up to 4 (quick) / 5 (thorough) operations {run, run of another computation under the same keys, run "
    "on a subset of keys, wipe the directory, delete one file, edit the returned objects in place} on one directory in "
    "one process is executed; every run must return what a plain key->value map would (stored value for stored keys, "
    "fresh value otherwise) and compute exactly the missing keys."
    ' Also: scan.steady_state through the cache, a user-supplied JSON naming / storage scheme, results that are legitimately None, key sets with one integer among floats, dotted strings, tuples of floats, and 25-40 keys; histories include runs over the tail / the reverse of the key list.'
    " The other way a run ends early - an exception from outside (Ctrl-C) - is enumerated too: raised before every file-system event, inside every write and inside the producer of the data (before it hands anything to the file, and part-way); the process lives on, the library's clean-up code runs, and the rerun must again return every result."
)
LEVEL_NOTE = "fault model: process kill (everything handed to the OS persists, nothing after the kill happens); power-loss reordering of unsynced writes is out of scope; trusted: the shim's interception of io.open/os.* and its model of Python-level write buffering (validated against real SIGKILL runs)"
RULE = (
    "case = (key set, result kind, crash plan) or (key-state product, parallel rerun) or (real-kill plan) or (result "
    "kind, operation history); all plans "
    "derived from the logged event list are enumerated. Non-trivial = the crash leaves at least one file or directory "
    "behind (crash after the first event); distinct = distinct (key set, kind, plan)."
)
ASSUMPTIONS = ["kill-only fault model", "default Cache (pickle) save/load functions"]

KEYSETS = {
    "ints": [0, 1, 2],
    "strs": ["a", "b", "c"],
    "float": [0.5, 1.5],
    "tuples": [(1, 2.5), (1, 3.5), (2, 2.5)],
    "collide": [1, "1"],
    # keys whose text differs only after the last dot / in the last element
    "floats-one-int": [1.0, 1.25, 1.5],
    "dotted": ["a.b", "a.c", "a"],
    "tuple-floats": [(1, 2.5), (1, 2.75), (1, 2)],
}
KINDS = ["dict", "frame", "simulation"]
CALLS_DIR = None  # set per run: marker files written by the cached function


def _fn_dict(v):
    _mark(v)
    return {"value": v * 2.0, "tag": f"item-{v}", "pad": "x" * 8}


def _fn_optional(v):
    """A function for which 'no result' (None) is a legitimate result for some inputs."""
    _mark(v)
    return None if int(round(v - 0.5)) % 2 == 1 else {"value": v * 3.0, "tag": f"opt-{v}"}


def _fn_frame(v):
    import pandas as pd

    _mark(v)
    return pd.DataFrame({"a": [v, v + 1.0, v + 2.0], "b": [v * v, 1.0, 2.0]}, index=[0.0, 0.5, 1.0])


def _mark(v):
    d = os.environ.get("MC_C19_CALLS")
    if d:
        with open(os.path.join(d, f"call-{os.getpid()}-{len(os.listdir(d))}-{sha12(repr(v))}"), "w") as f:  # noqa: PTH123
            f.write("1")


def ma(s, k):
    return k * s


def cin(c):
    _mark("rate")  # never counted: only the worker-level marker below is used
    return c


def _model():
    from mxlpy import Model

    m = Model()
    m.add_variable("x", 1.0).add_parameters({"k": 1.0, "c": 2.0})
    m.add_reaction("vin", _cin_plain, args=["c"], stoichiometry={"x": 1})
    m.add_reaction("vout", ma, args=["x", "k"], stoichiometry={"x": -1})
    return m


def _cin_plain(c):
    return c


def _tc_worker(model, time_points, y0, integrator):
    from mxlpy.scan import _time_course_worker

    _mark(tuple(sorted(model.get_parameter_values().items())))
    return _time_course_worker(model, time_points, y0=y0, integrator=integrator)


def _ss_worker(model, *, rel_norm, integrator, y0):
    from mxlpy.scan import _steady_state_worker

    _mark(tuple(sorted(model.get_parameter_values().items())))
    return _steady_state_worker(model, rel_norm=rel_norm, integrator=integrator, y0=y0)


def values_for(keys, variant=0):
    return [0.5 + i + 10.0 * variant for i, _k in enumerate(keys)]


def _json_name(k):
    return f"key-{k!r}.json".replace("'", "_")


def _json_load(file):
    return json.loads(Path(file).read_text())


def _json_save(file, data):
    Path(file).write_text(json.dumps(data))


def _values(keys, variant, full_keys):
    """The value that belongs to a key is fixed by its position in the FULL key list, whatever selection is run."""
    if full_keys is None:
        return values_for(keys, variant)
    allv = dict(zip([repr(k) for k in full_keys], values_for(full_keys, variant), strict=True))
    return [allv[repr(k)] for k in keys]


def run_cached(kind, keys, cache_dir, *, parallel=False, max_workers=2, variant=0, raw=None, flavor="pickle", full_keys=None):
    """One run of the real caching entry point. Returns {repr(key): comparable result}.

    variant: which computation is cached (0/1: another function / another model under the same keys);
    raw: optional dict that receives the returned objects themselves.
    """
    import numpy as np
    import pandas as pd
    from mxlpy import scan
    from mxlpy.parallel import Cache, parallelise

    cache = None if cache_dir is None else Cache(tmp_dir=Path(cache_dir))
    if cache is not None and flavor == "json":  # a user-supplied naming / storage scheme
        cache = Cache(tmp_dir=Path(cache_dir), name_fn=_json_name, load_fn=_json_load, save_fn=_json_save)
    if kind in ("dict", "frame", "optional"):
        fn = {"dict": _fn_dict, "frame": _fn_frame, "optional": _fn_optional}[kind]
        res = parallelise(fn, list(zip(keys, _values(keys, variant, full_keys), strict=True)), cache=cache, parallel=parallel, max_workers=max_workers)
        if [k for k, _v in res] != list(keys):
            raise AssertionError(f"keys out of order: {[k for k, _ in res]}")
        if raw is not None:
            raw.update({repr(k): v for k, v in res})
        if kind in ("dict", "optional"):
            return {repr(k): v for k, v in res}
        return {repr(k): v.to_dict() for k, v in res}
    # scan.time_course over a parameter column: keys are the row labels of the scan table
    if isinstance(keys[0], tuple):
        to_scan = pd.DataFrame({"k": _values(keys, variant, full_keys)}, index=pd.MultiIndex.from_tuples(keys))
    else:
        to_scan = pd.DataFrame({"k": _values(keys, variant, full_keys)}, index=list(keys))
    if kind == "steady":
        # scan.steady_state: results are a list aligned with the rows of the scan table
        sc = scan.steady_state(_model(), to_scan=to_scan, parallel=parallel, cache=cache, worker=_ss_worker)
        out = {}
        for pos, k in enumerate(keys):
            out[repr(k)] = sc.raw_results[pos].variables.round(9).to_dict()
            if raw is not None:
                raw[repr(k)] = sc.raw_results[pos]
        return out
    sc = scan.time_course(_model(), to_scan=to_scan, time_points=np.array([0.0, 0.5, 1.0]), parallel=parallel, cache=cache, worker=_tc_worker)
    out = {}
    for k in keys:
        out[repr(k)] = sc.raw_results[k].variables.round(12).to_dict()
        if raw is not None:
            raw[repr(k)] = sc.raw_results[k]
    return out


def count_calls(d):
    return len([f for f in os.listdir(d) if f.startswith("call-") and "rate" not in f])


def fresh_dir(tag):
    d = WORK_DIR / "C19" / f"{os.getpid()}" / tag
    if d.exists():
        shutil.rmtree(d)
    d.mkdir(parents=True)
    return d


def clean_events(kind, keys, tag="clean", interrupt=False):
    base = fresh_dir(tag)
    cache_dir = base / "cache"
    with FaultFS(cache_dir, interrupt=interrupt) as fs:
        run_cached(kind, keys, cache_dir)
    ev = list(fs.events)
    shutil.rmtree(base, ignore_errors=True)
    return ev


def plans_from(events):
    plans = []
    for i, (kind, _path, n, _c) in enumerate(events):
        plans.append((i, None))
        if kind == "write" and n:
            plans.extend((i, b) for b in range(1, n))
    plans.append((len(events), None))  # after the last event: nothing is interrupted
    return plans


def same(a, b):
    return json.dumps(a, sort_keys=True, default=repr) == json.dumps(b, sort_keys=True, default=repr)


def check(case):
    import warnings

    warnings.simplefilter("ignore")
    mode = case["mode"]
    if mode in ("crash", "interrupt"):
        return check_crash(case)
    if mode == "product":
        return check_product(case)
    if mode == "realkill":
        return check_realkill(case)
    if mode == "history":
        return check_history(case)
    raise HarnessError(mode)


# ---- histories on one cache directory in one process ------------------------------------------------
# reference model: the directory is a plain {key: value} map; a run returns the stored value of every key that
# has one and computes + stores the others. (Keys identify results: a run of another computation under the same
# keys is served from the map - that is the documented contract, and the reference does the same.)
HIST_OPS = ["runA", "runB", "runA-subset", "wipe", "drop-first", "edit-returned"]
# a second, smaller alphabet: other selections / orders of the same keys (a refined, filtered or re-sorted table)
HIST_OPS2 = ["runA", "runA-tail", "runA-reversed", "runB", "wipe"]


def check_history(case):
    kind, keys = case["kind"], [_key(k) for k in case["keys"]]
    txt = f"kind={kind} keys={keys} history={case['hist']}"
    base = fresh_dir(f"hist-{sha12(case)}")
    cache_dir, calls_dir = base / "cache", base / "calls"
    calls_dir.mkdir()
    flavor = case.get("flavor", "pickle")
    refs = {v: run_cached(kind, keys, None, variant=v) for v in (0, 1)}
    disk = {}
    last_raw = {}
    os.environ["MC_C19_CALLS"] = str(calls_dir)
    try:
        for step, op in enumerate(case["hist"]):
            if op == "wipe":
                shutil.rmtree(cache_dir, ignore_errors=True)
                disk.clear()
            elif op == "drop-first":
                from mxlpy.parallel import _pickle_name

                f = cache_dir / (_json_name(keys[0]) if flavor == "json" else _pickle_name(keys[0]))
                if f.exists():
                    f.unlink()
                disk.pop(repr(keys[0]), None)
            elif op == "edit-returned":
                # the caller post-processes what the last run returned, in place
                for obj in last_raw.values():
                    if obj is None:
                        continue
                    if isinstance(obj, dict):
                        obj["value"] = -1.0
                        obj["tag"] = "edited"
                    elif hasattr(obj, "iloc"):
                        obj.iloc[:, :] = -1.0
                    else:  # a Simulation
                        for f in obj.raw_variables:
                            f.iloc[:, :] = -1.0
                        obj.raw_args.clear() if isinstance(getattr(obj, "raw_args", None), list) else None
            else:
                variant = 1 if op == "runB" else 0
                ks = keys[:-1] if op.endswith("subset") else keys[1:] if op.endswith("tail") else keys[::-1] if op.endswith("reversed") else keys
                expect = {}
                misses = 0
                for k in ks:
                    if repr(k) not in disk:
                        disk[repr(k)] = refs[variant][repr(k)]
                        misses += 1
                    expect[repr(k)] = disk[repr(k)]
                before = count_calls(calls_dir)
                last_raw = {}
                try:
                    got = run_cached(kind, ks, cache_dir, variant=variant, raw=last_raw, flavor=flavor, full_keys=keys)
                except Exception as exc:  # noqa: BLE001
                    return outcome(False, "run-raised", symptom=f"history-run-raised:{type(exc).__name__}", nontrivial=True,
                                   detail=f"step {step} ({op}) raised {type(exc).__name__}: {str(exc)[:150]} | {txt}")
                calls = count_calls(calls_dir) - before
                for k in expect:
                    if not same(got.get(k), expect[k]):
                        return outcome(False, "wrong-result", symptom="wrong-result-in-history", nontrivial=True,
                                       detail=f"step {step} ({op}) key {k}: {str(got.get(k))[:100]} expected {str(expect[k])[:100]} | {txt}")
                if calls != misses:
                    return outcome(False, "recomputed", symptom="computations-differ-from-misses", nontrivial=True,
                                   detail=f"step {step} ({op}) computed {calls} results for {misses} missing keys | {txt}")
        return outcome(True, "history-transparent", nontrivial=len(case["hist"]) > 1)
    finally:
        os.environ.pop("MC_C19_CALLS", None)
        shutil.rmtree(base, ignore_errors=True)


def _reference(kind, keys):
    os.environ.pop("MC_C19_CALLS", None)
    return run_cached(kind, keys, None)


def _recover(kind, keys, cache_dir, calls_dir, nontrivial, txt, *, parallel=False):
    """Rerun on whatever the crash left; then a third run that must not recompute."""
    ref = _reference(kind, keys)
    os.environ["MC_C19_CALLS"] = str(calls_dir)
    try:
        try:
            got = run_cached(kind, keys, cache_dir, parallel=parallel)
        except Exception as exc:  # noqa: BLE001
            return outcome(False, "rerun-raised", symptom=f"rerun-raised:{type(exc).__name__}", nontrivial=nontrivial,
                           detail=f"rerun after the crash raised {type(exc).__name__}: {str(exc)[:150]} | {txt}")
        for k in ref:
            if not same(got.get(k), ref[k]):
                return outcome(False, "wrong-result", symptom="wrong-result-after-crash", nontrivial=nontrivial,
                               detail=f"key {k}: {str(got.get(k))[:120]} expected {str(ref[k])[:120]} | {txt}")
        before = count_calls(calls_dir)
        try:
            again = run_cached(kind, keys, cache_dir, parallel=parallel)
        except Exception as exc:  # noqa: BLE001
            return outcome(False, "rerun-raised", symptom=f"third-run-raised:{type(exc).__name__}", nontrivial=nontrivial, detail=f"{exc} | {txt}")
        if count_calls(calls_dir) != before:
            return outcome(False, "recomputed", symptom="recomputed-on-repeat", nontrivial=nontrivial,
                           detail=f"third run called the function {count_calls(calls_dir) - before} times | {txt}")
        for k in ref:
            if not same(again.get(k), ref[k]):
                return outcome(False, "wrong-result", symptom="wrong-result-from-cache", nontrivial=nontrivial,
                               detail=f"key {k} from cache: {str(again.get(k))[:120]} expected {str(ref[k])[:120]} | {txt}")
    finally:
        os.environ.pop("MC_C19_CALLS", None)
    return None


def check_crash(case):
    kind, keys, plan = case["kind"], [_key(k) for k in case["keys"]], tuple(case["plan"])
    txt = f"kind={kind} keys={keys} plan={plan}"
    base = fresh_dir(f"crash-{sha12(case)}")
    cache_dir, calls_dir = base / "cache", base / "calls"
    calls_dir.mkdir()
    try:
        crashed = False
        with FaultFS(cache_dir, plan, interrupt=case["mode"] == "interrupt") as fs:
            try:
                run_cached(kind, keys, cache_dir)
            except Crash:
                crashed = True
            except KeyboardInterrupt:
                if case["mode"] != "interrupt":
                    raise
                crashed = True
        if case.get("events_prefix") is not None:
            # temporary names may embed the process id: compare with long digit runs masked
            def _n(e):
                return (e[0], re.sub(r"\d{3,}", "N", str(e[1])), e[2])

            clean = [_n(e) for e in case["events_prefix"]]
            mine = [_n(e) for e in fs.events]
            if mine[: plan[0]] != [tuple(x) for x in clean[: plan[0]]]:
                raise HarnessError(f"event log diverged from the clean run before the crash point: {mine[: plan[0]]} vs {clean[: plan[0]]}")
        if not crashed and plan[0] < case["n_events"]:
            return outcome(False, "crash-swallowed", symptom="crash-swallowed" if case["mode"] == "crash" else "interrupt-swallowed",
                           detail=f"the library caught the simulated {'death' if case['mode'] == 'crash' else 'interrupt'} (BaseException) | {txt}")
        nontrivial = plan[0] >= 1
        left = snapshot(cache_dir)
        bad = _recover(kind, keys, cache_dir, calls_dir, nontrivial, txt + f" left={sorted((left or {}).keys())}")
        if bad is not None:
            return bad
        return outcome(True, ("recovered" if case["mode"] == "crash" else "recovered-after-interrupt") if crashed else "uninterrupted", nontrivial=nontrivial, extra={"crash_states": 1})
    finally:
        shutil.rmtree(base, ignore_errors=True)


def key_states(kind, key, value_index, nkeys):
    """Materialise the distinct on-disk states a kill can leave for ONE key: list of {name: bytes}."""
    keys = [key]
    ev = clean_events(kind, keys, tag=f"ks-{sha12([kind, repr(key)])}")
    states = {}
    picks = []
    for i, (k, _p, n, _c) in enumerate(ev):
        picks.append((i, None))
        if k == "write" and n and n > 2:
            picks.append((i, n // 2))
    picks.append((len(ev), None))
    for plan in picks:
        base = fresh_dir(f"ks-{sha12([kind, repr(key), plan])}")
        cache_dir = base / "cache"
        with FaultFS(cache_dir, plan):
            try:
                run_cached(kind, keys, cache_dir)
            except Crash:
                pass
        snap = snapshot(cache_dir) or {}
        states[sha12({k: (v.hex() if v is not None else None) for k, v in snap.items()})] = snap
        shutil.rmtree(base, ignore_errors=True)
    return list(states.values())


def check_product(case):
    """Combine per-key crash states into one directory and rerun in parallel (2 workers)."""
    kind = case["kind"]
    keys = [_key(k) for k in case["keys"]]
    txt = f"kind={kind} keys={keys} per-key states={case['choice']}"
    base = fresh_dir(f"prod-{sha12(case)}")
    cache_dir, calls_dir = base / "cache", base / "calls"
    calls_dir.mkdir()
    try:
        # values depend on the position in the key list, so single-key states are produced at that position
        cache_dir.mkdir()
        for pos, (key, choice) in enumerate(zip(keys, case["choice"], strict=True)):
            sub = fresh_dir(f"prod-one-{sha12([case, pos])}")
            one = sub / "cache"
            ev = None
            with FaultFS(one) as fs0:
                _run_single(kind, keys, pos, one)
            ev = fs0.events
            shutil.rmtree(one)
            picks = [(i, None) for i in range(len(ev))] + [(i, e[2] // 2) for i, e in enumerate(ev) if e[0] == "write" and e[2] and e[2] > 2] + [(len(ev), None)]
            plan = picks[choice % len(picks)]
            with FaultFS(one, plan):
                try:
                    _run_single(kind, keys, pos, one)
                except Crash:
                    pass
            for name, data in (snapshot(one) or {}).items():
                if data is not None:
                    (cache_dir / name).write_bytes(data)
            shutil.rmtree(sub, ignore_errors=True)
        bad = _recover(kind, keys, cache_dir, calls_dir, True, txt, parallel=True)
        if bad is not None:
            return bad
        return outcome(True, "recovered-parallel", nontrivial=True, extra={"crash_states": 1})
    finally:
        shutil.rmtree(base, ignore_errors=True)


def _run_single(kind, keys, pos, cache_dir):
    """Run the real caching code for the key at `pos` only (same value it has in the full run)."""
    from mxlpy.parallel import Cache, parallelise

    fn = {"dict": _fn_dict, "optional": _fn_optional}.get(kind, _fn_frame)
    vals = values_for(keys)
    parallelise(fn, [(keys[pos], vals[pos])], cache=Cache(tmp_dir=Path(cache_dir)), parallel=False)


def _norm_names(snap):
    if snap is None:
        return None
    return {re.sub(r"\d{3,}", "N", k): v for k, v in snap.items()}


def check_realkill(case):
    """Execute one crash plan for real: a child process sends itself SIGKILL at the planned instant."""
    kind, keys, plan = case["kind"], [_key(k) for k in case["keys"]], tuple(case["plan"])
    txt = f"real kill: kind={kind} keys={keys} plan={plan}"
    base = fresh_dir(f"kill-{sha12(case)}")
    try:
        sim_dir, real_dir = base / "sim", base / "real"
        with FaultFS(sim_dir, plan):
            try:
                run_cached(kind, keys, sim_dir)
            except Crash:
                pass
        code = (
            "import sys, json; sys.path.insert(0, %r)\n"
            "from mc.props import c19\nfrom mc.faultfs import FaultFS\n"
            "case = json.loads(sys.argv[1])\n"
            "keys = [c19._key(k) for k in case['keys']]\n"
            "with FaultFS(sys.argv[2], tuple(case['plan']), kill=True):\n"
            "    c19.run_cached(case['kind'], keys, sys.argv[2])\n" % str(ROOT)
        )
        p = subprocess.run([sys.executable, "-c", code, json.dumps(case), str(real_dir)], capture_output=True, text=True, timeout=300,
                           env={**os.environ, "TQDM_DISABLE": "1"})
        if p.returncode != -9:
            raise HarnessError(f"child was expected to die from SIGKILL, rc={p.returncode}: {p.stderr[-400:]}")
        a, b = _norm_names(snapshot(sim_dir)), _norm_names(snapshot(real_dir))
        if a != b:
            raise HarnessError(f"simulated crash state differs from the real one: {sorted((a or {}).items())[:4]} vs {sorted((b or {}).items())[:4]} | {txt}")
        return outcome(True, "fault-model-validated", nontrivial=True)
    finally:
        shutil.rmtree(base, ignore_errors=True)


def _key(k):
    return tuple(k) if isinstance(k, list) else k


def generate(tier):
    cases = []
    combos = [("ints", "dict"), ("strs", "dict"), ("float", "dict"), ("tuples", "dict"), ("collide", "dict"), ("ints", "frame"), ("tuples", "simulation"),
              ("floats-one-int", "dict"), ("dotted", "dict"), ("tuple-floats", "dict"), ("ints", "optional"), ("strs", "optional")]
    if tier == "thorough":
        combos += [("ints", "simulation"), ("strs", "frame"), ("tuples", "frame"), ("collide", "frame")]
    for ks, kind in combos:
        keys = KEYSETS[ks]
        ev = clean_events(kind, keys, tag=f"gen-{ks}-{kind}")
        plans = plans_from(ev)
        if tier == "quick" and kind == "simulation":
            # every event, and every 16th byte offset of the (several kB) pickles
            plans = [p for p in plans if p[1] is None or p[1] % 16 == 1]
        for plan in plans:
            cases.append({"mode": "crash", "keyset": ks, "kind": kind, "keys": [list(k) if isinstance(k, tuple) else k for k in keys],
                          "plan": list(plan), "n_events": len(ev), "events_prefix": [list(e[:3]) for e in ev]})
    # the other way a run ends early: an exception from outside (Ctrl-C) at every event and at the first / middle / last
    # byte of every write; the process lives on, so the library's own clean-up code runs before the rerun
    for ks, kind in (("ints", "dict"), ("strs", "frame"), ("tuples", "dict"), ("ints", "optional")) + ((("ints", "simulation"),) if tier == "thorough" else ()):
        keys = KEYSETS[ks]
        ev = clean_events(kind, keys, tag=f"gen-int-{ks}-{kind}", interrupt=True)
        for i, (ekind, _path, n, _c) in enumerate(ev):
            offsets = [None] + (sorted({1, n // 2, n - 1} - {0}) if ekind in ("write", "uwrite") and n and n > 1 else [])
            for b in offsets:
                cases.append({"mode": "interrupt", "keyset": ks, "kind": kind, "keys": [list(k) if isinstance(k, tuple) else k for k in keys],
                              "plan": [i, b], "n_events": len(ev), "events_prefix": [list(e[:3]) for e in ev]})
    # parallel reruns on products of per-key crash states
    for kind in ("dict", "frame") if tier == "thorough" else ("dict",):
        keys = KEYSETS["ints"]
        nstates = 8
        for choice in it.product(range(nstates), repeat=len(keys)):
            if tier == "quick" and sum(choice) % 4 != 0:
                continue
            cases.append({"mode": "product", "kind": kind, "keys": keys, "choice": list(choice)})
    # operation histories on one directory in one process; every history ends with a run (the observation)
    runs = [o for o in HIST_OPS if o.startswith("run")]
    depth = 4 if tier == "quick" else 5
    for kind, ks in (("dict", "ints"), ("frame", "strs"), ("simulation", "ints"), ("dict", "floats-one-int"), ("frame", "dotted"), ("simulation", "tuple-floats"),
                     ("optional", "strs")):
        for n in range(1, depth + 1):
            if kind == "simulation" and n > depth - 1:
                continue
            for pre in it.product(HIST_OPS, repeat=n - 1):
                for last in runs:
                    cases.append({"mode": "history", "kind": kind, "keys": KEYSETS[ks], "hist": [*pre, last]})
    for kind, ks in (("dict", "ints"), ("frame", "strs"), ("simulation", "ints"), ("steady", "ints"), ("steady", "strs")):
        for n in range(1, 4):
            for pre in it.product(HIST_OPS2, repeat=n - 1):
                for last in [o for o in HIST_OPS2 if o.startswith("run")]:
                    if kind != "steady" and not any(o in ("runA-tail", "runA-reversed") for o in (*pre, last)):
                        continue  # already in the first alphabet
                    cases.append({"mode": "history", "kind": kind, "keys": KEYSETS[ks], "hist": [*pre, last]})
    # the same histories with a user-supplied naming / storage scheme (JSON files named after repr(key)), on the key
    # set whose str() values coincide: with these functions the keys are distinct files
    for n in range(1, depth):
        for pre in it.product(HIST_OPS, repeat=n - 1):
            for last in runs:
                cases.append({"mode": "history", "kind": "dict", "keys": KEYSETS["collide"] + [2.5], "hist": [*pre, last], "flavor": "json"})
    # many keys
    cases.append({"mode": "history", "kind": "dict", "keys": list(range(40)), "hist": ["runA", "drop-first", "runA-subset", "runB", "runA"]})
    cases.append({"mode": "history", "kind": "frame", "keys": [f"k{i}" for i in range(25)], "hist": ["runA-subset", "runB", "edit-returned", "runA"]})
    # fault-model validation with a real SIGKILL
    ev = clean_events("dict", KEYSETS["ints"], tag="gen-kill")
    writes = [i for i, e in enumerate(ev) if e[0] == "write"]
    for plan in ((writes[0], 5), (writes[1], None), (len(ev) - 1, None)):
        cases.append({"mode": "realkill", "kind": "dict", "keys": KEYSETS["ints"], "plan": list(plan)})
    return cases


def _collide(case):
    return case.get("keyset") == "collide"


PREDICATES = {"C19-str-colliding-keys": _collide}


def run(ctx):
    cases = generate(ctx.tier)
    n_crash = sum(1 for c in cases if c["mode"] == "crash")
    ctx.note(f"{n_crash} crash plans, {sum(1 for c in cases if c['mode'] == 'product')} parallel state products, "
             f"{sum(1 for c in cases if c['mode'] == 'realkill')} real SIGKILL validations, "
             f"{sum(1 for c in cases if c['mode'] == 'history')} operation histories on one directory")
    seq = [c for c in cases if c["mode"] != "product"]
    par = [c for c in cases if c["mode"] == "product"]
    ctx.evaluate(seq, timeout=300)
    ctx.evaluate(par, timeout=600, procs=6, nestable=True)  # each case starts its own 2-worker pool
    shutil.rmtree(WORK_DIR / "C19", ignore_errors=True)
