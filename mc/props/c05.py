"""C05 - isotopomer expansion preserves base structure, totals and dynamics.

Base networks (chain, merge, split, homodimerisation; optional unlabelled bystander, derived
quantities, unmapped reaction among unlabelled compounds) x label counts x ALL atom-transition maps
(every arrangement of source positions, incl. external positions and unused trailing entries; maps
one shorter than the substrates' atoms must be rejected) x initial labels x vertex / interior states.
Oracle: an independent expander written from the statement (structure), total preservation, and the
collapse identity (summed isotopomer derivatives = base derivative at the totals).
"""

from __future__ import annotations

import itertools as it
import math

from mc.core import outcome

ID = "C05"
LEVEL = "exploration"
TECHNIQUE = "bounded-exhaustive enumeration of base networks x label counts x all atom maps x isotopomer vertex states against an independent expander and the collapse identity"
LEVEL_TEXT = (
    "Four network families x label counts 1..3 per compound (at most 4 substrate positions per reaction) x every "
    "injective atom map (all arrangements of source positions over substrate and external positions) plus non-injective "
    "and too-short maps x initial-label placements; the labelled model built by LabelMapper is compared with an "
    "independent expansion (one reaction per substrate pattern, unit stoichiometries, product labels by the map), "
    "initial totals, and - for mass-action rates - the collapse identity at every vertex state of the substrate "
    "compounds plus uniform and asymmetric interior states (multilinearity makes vertices decide hetero-molecular "
    "reactions; interior states cover the quadratic homodimer)."
    " Added: trimer networks with the repeated substrate in every argument position, the structure of every "
    "mapped influx / efflux reaction, an unlabelled substrate with a labelled product. "
    ' Also: one LabelMapper object built again after its maps were changed (all ordered pairs of maps).'
    ' Also: compounds declared with zero label positions.'
)
LEVEL_NOTE = "trusted: the base Model's RHS (C01); mass-action rates so that both sides are multilinear in the isotopomer vectors"
RULE = (
    "case = (network, options, label counts, map, initial label); product enumerated completely. Non-trivial = the map "
    "is not the identity or the network is bimolecular or has an option; distinct = distinct tuples."
)
ASSUMPTIONS = ["mass-action kinetics; binary labels; at most 4 substrate positions per mapped reaction"]

TOT = {"A": 1.5, "B": 0.5, "C": 2.0, "U": 0.75, "W": 0.25}


def cin(k):
    return k


def ma1(s, k):
    return k * s


def ma2(s1, s2, k):
    return k * s1 * s2


def ma3(s1, s2, s3, k):
    return k * s1 * s2 * s3


def mul2(a, b):
    return a * b


def add2(a, b):
    return a + b


def base_model(c):
    from mxlpy import Model

    m = Model()
    net = c["net"]
    opt = c["opt"]
    m.add_parameters({"kin": 1.25, "k1": 0.75, "k2": 0.5, "k3": 1.5})
    k1 = "k1"
    if opt == "derived":
        m.add_derived("kd", mul2, args=["k1", "k3"])  # derived parameter used by the mapped rate
        k1 = "kd"
    if net == "chain":
        m.add_variables({"A": TOT["A"], "B": TOT["B"]})
        m.add_reaction("vin", cin, args=["kin"], stoichiometry={"A": 1})
        if opt == "bystander":
            m.add_variable("U", TOT["U"])
            m.add_reaction("v1", ma2, args=["A", "U", k1], stoichiometry={"A": -1, "U": -1, "B": 1})
            m.add_reaction("vu", cin, args=["k3"], stoichiometry={"U": 1})
        else:
            m.add_reaction("v1", ma1, args=["A", k1], stoichiometry={"A": -1, "B": 1})
        m.add_reaction("vout", ma1, args=["B", "k2"], stoichiometry={"B": -1})
    elif net == "merge":
        m.add_variables({"A": TOT["A"], "B": TOT["B"], "C": TOT["C"]})
        m.add_reaction("vinA", cin, args=["kin"], stoichiometry={"A": 1})
        m.add_reaction("vinB", cin, args=["k3"], stoichiometry={"B": 1})
        m.add_reaction("v1", ma2, args=["A", "B", k1], stoichiometry={"A": -1, "B": -1, "C": 1})
        m.add_reaction("vout", ma1, args=["C", "k2"], stoichiometry={"C": -1})
    elif net == "split":
        m.add_variables({"A": TOT["A"], "B": TOT["B"], "C": TOT["C"]})
        m.add_reaction("vinC", cin, args=["kin"], stoichiometry={"C": 1})
        m.add_reaction("v1", ma1, args=["C", k1], stoichiometry={"C": -1, "A": 1, "B": 1})
        m.add_reaction("voutA", ma1, args=["A", "k2"], stoichiometry={"A": -1})
        m.add_reaction("voutB", ma1, args=["B", "k3"], stoichiometry={"B": -1})
    elif net == "dimer":
        m.add_variables({"A": TOT["A"], "B": TOT["B"]})
        m.add_reaction("vin", cin, args=["kin"], stoichiometry={"A": 1})
        m.add_reaction("v1", ma2, args=["A", "A", k1], stoichiometry={"A": -2, "B": 1})
        m.add_reaction("vout", ma1, args=["B", "k2"], stoichiometry={"B": -1})
    elif net in ("trimer-baa", "trimer-aba", "trimer-aab"):
        m.add_variables({"A": TOT["A"], "B": TOT["B"], "C": TOT["C"]})
        m.add_reaction("vinA", cin, args=["kin"], stoichiometry={"A": 2})
        m.add_reaction("vinB", cin, args=["k3"], stoichiometry={"B": 1})
        order = {"trimer-baa": ["B", "A", "A"], "trimer-aba": ["A", "B", "A"], "trimer-aab": ["A", "A", "B"]}[net]
        # the stoichiometry dict lists B first, the argument order varies
        m.add_reaction("v1", ma3, args=[*order, k1], stoichiometry={"B": -1, "A": -2, "C": 1})
        m.add_reaction("vout", ma1, args=["C", "k2"], stoichiometry={"C": -1})
    if opt == "unmapped":
        # a derived variable over a labelled compound, read by an unmapped reaction among unlabelled compounds
        m.add_variables({"U": TOT["U"], "W": TOT["W"]})
        m.add_derived("dv", add2, args=["A", "U"])
        m.add_reaction("vuw", ma1, args=["dv", "k3"], stoichiometry={"U": -1, "W": 1})
        m.add_reaction("vw", ma1, args=["W", "k2"], stoichiometry={"W": -1})
        m.add_reaction("vuin", cin, args=["k3"], stoichiometry={"U": 1})
    return m


def identity_maps(c):
    """Maps of the auxiliary mapped reactions (influx: all positions external; efflux: identity)."""
    n = c["n"]
    net = c["net"]
    if net == "chain":
        return {"vin": list(range(n.get("A", 0))), "vout": list(range(n["B"]))}
    if net == "merge":
        return {"vinA": list(range(n["A"])), "vinB": list(range(n["B"])), "vout": list(range(n["C"]))}
    if net == "split":
        return {"vinC": list(range(n["C"])), "voutA": list(range(n["A"])), "voutB": list(range(n["B"]))}
    if net.startswith("trimer"):
        return {"vinA": list(range(2 * n["A"])), "vinB": list(range(n["B"])), "vout": list(range(n["C"]))}
    return {"vin": list(range(n["A"])), "vout": list(range(n["B"]))}


def aux_shapes(c):
    """(substrates, products) of the auxiliary mapped reactions: influxes have no substrate (every product position
    is beyond the substrates and enters labelled), effluxes no product."""
    net = c["net"]
    if net == "chain":
        return {"vin": ([], ["A"]), "vout": (["B"], [])}
    if net == "merge":
        return {"vinA": ([], ["A"]), "vinB": ([], ["B"]), "vout": (["C"], [])}
    if net == "split":
        return {"vinC": ([], ["C"]), "voutA": (["A"], []), "voutB": (["B"], [])}
    if net.startswith("trimer"):
        return {"vinA": ([], ["A", "A"]), "vinB": ([], ["B"]), "vout": (["C"], [])}
    return {"vin": ([], ["A"]), "vout": (["B"], [])}


def v1_shape(c):
    """(substrate list with multiplicity, product list with multiplicity) of the reaction under test."""
    net = c["net"]
    if net == "chain":
        return (["A", "U"] if c["opt"] == "bystander" else ["A"]), ["B"]
    if net == "merge":
        return ["A", "B"], ["C"]
    if net == "split":
        return ["C"], ["A", "B"]
    if net.startswith("trimer"):
        return ["B", "A", "A"], ["C"]  # order of the stoichiometry dict, each unit of stoichiometry once
    return ["A", "A"], ["B"]


def expected_reactions(rate, subs, prods, n, labelmap):
    """Independent expansion written from the statement: {stoichiometry frozenset}, count."""
    ls = [n.get(s, 0) for s in subs]
    lp = [n.get(p, 0) for p in prods]
    ts, tp = sum(ls), sum(lp)
    ext = max(0, tp - ts)
    out = []
    for pat in it.product("01", repeat=ts):
        full = "".join(pat) + "1" * ext
        prod = "".join(full[labelmap[i]] for i in range(tp))
        st = {}
        pos = 0
        for s, k in zip(subs, ls, strict=True):
            name = s + ("__" + full[pos: pos + k] if k else "")
            st[name] = st.get(name, 0) - 1
            pos += k
        pos = 0
        for p, k in zip(prods, lp, strict=True):
            name = p + ("__" + prod[pos: pos + k] if k else "")
            st[name] = st.get(name, 0) + 1
            pos += k
        out.append(frozenset((k, v) for k, v in st.items() if v != 0))
    return out


def maps_for(c, tier):
    subs, prods = v1_shape(c)
    n = c["n"]
    ts = sum(n.get(s, 0) for s in subs)
    tp = sum(n.get(p, 0) for p in prods)
    ext = max(0, tp - ts)
    src = list(range(ts + ext))
    maps = []
    # every injective assignment of source positions to the product positions
    for arr in it.permutations(src, tp):
        m = list(arr)
        # the implementation wants at least as many entries as substrate atoms: pad with unused entries
        if len(m) < ts:
            m = m + [s for s in src if s not in m][: ts - len(m)]
        maps.append(("injective", m))
    if tp >= 2:
        maps.append(("non-injective", [0] * max(tp, ts)))
    if ts >= 1:
        maps.append(("short", list(range(ts - 1))))
    return maps


def generate(tier):
    cases = []
    nets = [("chain", "none"), ("chain", "bystander"), ("chain", "derived"), ("chain", "unmapped"), ("merge", "none"),
            ("merge", "derived"), ("split", "none"), ("split", "unmapped"), ("dimer", "none"), ("dimer", "derived"),
            ("trimer-baa", "none"), ("trimer-aba", "none"), ("trimer-aab", "derived")]
    counts = (1, 2) if tier == "quick" else (1, 2, 3)
    for net, opt in nets:
        if net == "chain":
            ns = [{"A": a, "B": b} for a in (1, 2, 3) for b in (1, 2, 3)]
            if opt in ("none", "bystander"):
                ns += [{"B": b} for b in (1, 2, 3)]  # unlabelled substrate, labelled product: every position is external
            if opt == "none":
                # a compound DECLARED with zero label positions: it stays one pool under its own name
                ns += [{"A": 0, "B": b} for b in (1, 2)] + [{"A": a, "B": 0} for a in (1, 2)]
        elif net == "merge":
            ns = [{"A": a, "B": b, "C": a + b} for a in counts for b in counts if a + b <= 4]
            ns += [{"A": 1, "B": 1, "C": 3}, {"A": 2, "B": 1, "C": 2}]
        elif net == "split":
            ns = [{"A": a, "B": b, "C": a + b} for a in counts for b in counts if a + b <= 4]
            ns += [{"A": 1, "B": 1, "C": 3}, {"A": 2, "B": 2, "C": 3}]
        elif net.startswith("trimer"):
            ns = [{"A": 1, "B": 1, "C": 3}, {"A": 1, "B": 2, "C": 4}] + ([{"A": 1, "B": 1, "C": 2}] if tier == "thorough" else [])
        else:
            ns = [{"A": 1, "B": 2}, {"A": 2, "B": 4}, {"A": 1, "B": 1}, {"A": 2, "B": 2}] + ([{"A": 1, "B": 3}] if tier == "thorough" else [])
        for n in ns:
            base = {"net": net, "opt": opt, "n": n}
            for kind, m in maps_for(base, tier):
                inits = ["none"] if kind != "injective" else ["none", "first", "last", "pair"]
                for init in inits:
                    cases.append({**base, "map": m, "mapkind": kind, "init": init})
    # the same mapper object re-used after its map was changed
    for net, n in (("chain", {"A": 3, "B": 3}), ("merge", {"A": 1, "B": 2, "C": 3})):
        perms = [list(p_) for p_ in it.permutations(range(3))]
        for first, second in it.permutations(perms, 2):
            cases.append({"net": net, "opt": "none", "n": n, "map": second, "mapkind": "injective", "init": "first", "first_map": first})
    return cases


def _close(a, b, tol=1e-10):
    return abs(a - b) <= tol + tol * max(abs(a), abs(b))


def check(case):
    from mxlpy import LabelMapper

    n = case["n"]
    subs, prods = v1_shape(case)
    ts = sum(n.get(s, 0) for s in subs)
    nt = case["map"] != list(range(max(ts, sum(n.get(p, 0) for p in prods)))) or case["net"] != "chain" or case["opt"] != "none"
    txt = f"{case}"
    base = base_model(case)
    maps = {**identity_maps(case), "v1": case["map"]}
    first = next(c_ for c_ in n if n[c_])  # initial labels go to a compound that has positions
    init = None
    if case["init"] == "first":
        init = {first: 0}
    elif case["init"] == "last":
        init = {first: n[first] - 1}
    elif case["init"] == "pair":
        init = {first: [0, n[first] - 1]}
    try:
        if case.get("first_map") is not None:
            # one mapper object, built once with another map for v1, then given this map and built again
            mapper = LabelMapper(base, label_variables=dict(n), label_maps={**maps, "v1": list(case["first_map"])})
            mapper.build_model(initial_labels=init)
            mapper.label_maps["v1"] = list(case["map"])
            lm = mapper.build_model(initial_labels=init)
        else:
            lm = LabelMapper(base, label_variables=dict(n), label_maps=maps).build_model(initial_labels=init)
    except ValueError as exc:
        if case["mapkind"] == "short":
            return outcome(True, "short-map-rejected", nontrivial=nt)
        return outcome(False, "rejected-valid-map", symptom="valid-map-rejected", nontrivial=nt, detail=f"ValueError: {exc} | {txt}")
    except Exception as exc:  # noqa: BLE001
        return outcome(False, "build-raised", symptom=f"build-raised:{type(exc).__name__}", nontrivial=nt, detail=f"{type(exc).__name__}: {exc} | {txt}")
    if case["mapkind"] == "short":
        return outcome(False, "short-map-accepted", symptom="short-map-accepted", nontrivial=nt, detail=f"a map with {len(case['map'])} entries for {ts} substrate atoms was accepted | {txt}")

    # (1) structure of the reaction under test
    raw = lm.get_raw_reactions()
    got = [frozenset((k, v) for k, v in r.stoichiometry.items() if v != 0) for name, r in raw.items() if name.startswith("v1__")]
    exp = expected_reactions("v1", subs, prods, n, case["map"])
    if len(got) != len(exp):
        return outcome(False, "structure", symptom="wrong-reaction-count", nontrivial=nt, detail=f"{len(got)} isotopomer reactions for v1, expected {len(exp)} | {txt}")
    if sorted(map(sorted, got)) != sorted(map(sorted, exp)):
        missing = [sorted(e) for e in exp if e not in got][:2]
        return outcome(False, "structure", symptom="wrong-stoichiometry", nontrivial=nt, detail=f"expected isotopomer reactions missing, e.g. {missing} | {txt}")
    # (1b) the auxiliary mapped reactions: influx positions enter labelled, efflux consumes every pattern
    for rname, (asubs, aprods) in aux_shapes(case).items():
        if not any(n.get(x, 0) for x in asubs + aprods):
            continue  # nothing labelled takes part: the reaction is not expanded
        got = [frozenset((k, v) for k, v in r.stoichiometry.items() if v != 0) for name, r in raw.items() if name == rname or name.startswith(rname + "__")]
        exp = expected_reactions(rname, asubs, aprods, n, maps[rname])
        if sorted(map(sorted, got)) != sorted(map(sorted, exp)):
            missing = [sorted(e) for e in exp if e not in got][:2]
            return outcome(False, "structure", symptom="wrong-stoichiometry:influx-or-efflux", nontrivial=nt,
                           detail=f"{rname}: expected isotopomer reactions {missing} missing; got {[sorted(g) for g in got][:3]} | {txt}")
    # (2) totals and placement
    ic = lm.get_initial_conditions()
    bic = base.get_initial_conditions()
    unexpected = sorted(set(ic) - {f"{cpd}__{''.join(p_)}" if k else cpd for cpd, k in n.items() for p_ in it.product("01", repeat=k)} - set(bic))
    if unexpected:
        return outcome(False, "structure", symptom="unexpected-variable", nontrivial=nt, detail=f"the labelled model has variables that are no isotopomer of anything: {unexpected} | {txt}")
    for cpd, k in n.items():
        if k == 0:
            if not _close(ic.get(cpd, -1.0), bic[cpd]):
                return outcome(False, "totals", symptom="initial-total-not-preserved", nontrivial=nt, detail=f"{cpd} (declared with 0 positions): {ic.get(cpd)} expected {bic[cpd]} | {txt}")
            continue
        isos = {name: v for name, v in ic.items() if name.startswith(cpd + "__")}
        if len(isos) != 2**k:
            return outcome(False, "structure", symptom="wrong-isotopomer-count", nontrivial=nt, detail=f"{cpd}: {len(isos)} isotopomers | {txt}")
        if not _close(sum(isos.values()), bic[cpd]):
            return outcome(False, "totals", symptom="initial-total-not-preserved", nontrivial=nt, detail=f"{cpd}: {sum(isos.values())} expected {bic[cpd]} | {txt}")
        want = "0" * k
        if init and cpd in init:
            pos = init[cpd] if isinstance(init[cpd], list) else [init[cpd]]
            want = "".join("1" if i in pos else "0" for i in range(k))
        if not _close(isos.get(f"{cpd}__{want}", -1.0), bic[cpd]):
            return outcome(False, "totals", symptom="initial-label-misplaced", nontrivial=nt, detail=f"{cpd}: expected all {bic[cpd]} on {cpd}__{want}, got {isos} | {txt}")
    # (3) collapse identity
    var_l = lm.get_variable_names()
    labelled = {cpd: [f"{cpd}__{''.join(p)}" for p in it.product("01", repeat=k)] for cpd, k in n.items() if k}
    sub_cpds = sorted({s for s in subs if n.get(s)})
    other = [cpd for cpd in n if cpd not in sub_cpds and n[cpd]]

    def dist(cpd, mode, vertex=None):
        names = labelled[cpd]
        if mode == "vertex":
            return {nm: (TOT[cpd] if i == vertex else 0.0) for i, nm in enumerate(names)}
        if mode == "uniform":
            return dict.fromkeys(names, TOT[cpd] / len(names))
        w = [1.0 + 0.37 * i + (0.11 * i * i) for i in range(len(names))]
        return {nm: TOT[cpd] * wi / sum(w) for nm, wi in zip(names, w, strict=True)}

    states = []
    for combo in it.product(*[range(len(labelled[s])) for s in sub_cpds]):
        st = {}
        for s, v in zip(sub_cpds, combo, strict=True):
            st.update(dist(s, "vertex", v))
        for o in other:
            st.update(dist(o, "asym"))
        states.append(st)
    for mode in ("uniform", "asym"):
        st = {}
        for cpd in labelled:
            st.update(dist(cpd, mode))
        states.append(st)
    for st in states:
        full = {v: st.get(v, TOT.get(v, 1.0)) for v in var_l}
        try:
            rl = lm.get_right_hand_side(full, 0.0)
        except Exception as exc:  # noqa: BLE001
            return outcome(False, "labelled-model-fails", symptom=f"labelled-model-raised:{type(exc).__name__}", nontrivial=nt, detail=f"{type(exc).__name__}: {exc} | {txt}")
        base_state = {}
        for v in base.get_variable_names():
            base_state[v] = sum(full[i] for i in labelled[v]) if v in labelled else full[v]
        rb = base.get_right_hand_side(base_state, 0.0)
        for v in base.get_variable_names():
            tot = sum(float(rl[i]) for i in labelled[v]) if v in labelled else float(rl[v])
            if not _close(tot, float(rb[v])):
                kind = "vertex" if st in states[:-2] else "interior"
                return outcome(False, "collapse", symptom="collapse-identity-violated", nontrivial=nt,
                               detail=f"sum of d{v}_iso/dt = {tot}, base d{v}/dt at the totals = {float(rb[v])} ({kind} state) | {txt}")
    return outcome(True, "conforms", nontrivial=nt, extra={"states_checked": len(states)})


def _repeated_substrate(case):
    return case["net"] == "dimer"


PREDICATES = {}


def run(ctx):
    cases = generate(ctx.tier)
    ctx.note(f"{len(cases)} (network, counts, map, initial label) cases")
    ctx.evaluate(cases, timeout=300)
