"""C04 - continued simulation: absolute increasing time axis, piecewise-exact states.

Level-wise BFS over histories of Simulator operations on dx/dt = c + a*time - k*x (closed form),
each history executed on a fresh real Simulator and compared, after every operation, with a boring
reference model (list of segments + closed-form solution + refusal rule).
"""

from __future__ import annotations

import math

from mc.core import HarnessError, outcome, sha12

ID = "C04"
LEVEL = "model_checking"
TECHNIQUE = "explicit BFS over Simulator operation histories on the real object, reference model = segment list + closed-form solution"
LEVEL_TEXT = (
    "Every history of up to 3 (quick) / 4 (thorough) operations from a 22-operation alphabet (simulate, time course, "
    "protocol forms, parameter updates, overrides, steady state, clear; legal and illegal end times, relative to the "
    "time already reached) is executed on a fresh Simulator for an autonomous and a time-dependent linear model; after "
    "every operation the accumulated result is compared with a reference model: strictly increasing absolute axis, "
    "requested points present once, closed-form values per segment, per-segment parameters, refusal iff end <= reached."
    " Added: a third model variant (the same equations through a derived parameter and a derived variable), "
    "whole-number time points given as Python ints / an integer array, non-initial roots, and 136 long walks "
    "through the whole alphabet (every rotation, both directions). "
    " Also: an override back to the value recorded in the result, result views read between an update and the next simulation, and ONE time-point array object shared by every call of a history (the caller's array must be what it was)."
    ' Also: parameters set to exactly zero (single form, plural form, protocol step).'
)
LEVEL_NOTE = "trusted: scipy LSODA at atol=rtol=1e-8 (compared at 5e-6), the closed form of the linear ODE, the reference refusal rule taken from the statement"
RULE = (
    "history = (model variant, sequence of operation indices); all sequences up to the depth are enumerated level by "
    "level, prefixes that failed are not extended. Non-trivial = the history contains at least two operations of which "
    "one produced a segment; distinct = distinct histories; states = distinct reference states (rounded)."
)
ASSUMPTIONS = [
    "one-variable linear model; Scipy integrator (the only one installed)",
    "start state after clear_results is taken from the first reported row (the statement does not prescribe it)",
    "the time a steady-state run reports is only required to exceed the time already reached",
]

RTOL = 5e-6
ATOL = 2e-7

OPS = [
    ("simulate", {"d": 0.5, "steps": None}),
    ("simulate", {"d": 1.0, "steps": None}),
    ("simulate", {"d": 0.5, "steps": 1}),
    ("simulate", {"d": 1.0, "steps": 2}),
    ("simulate", {"d": 0.0, "steps": None}),
    ("simulate", {"d": -0.5, "steps": None}),
    ("simulate", {"d": 0.0, "steps": 2}),
    ("time_course", {"rel": [0.5, 1.0]}),
    ("time_course", {"rel": [0.0, 0.5]}),
    ("time_course", {"rel": [-0.5, 0.5]}),
    ("time_course", {"rel": [-0.5, 0.0]}),
    ("time_course", {"rel": [0.75]}),
    ("time_course", {"rel": ["eps", 0.5]}),  # first point only just later than the time reached
    ("time_course_int", {"as": "list"}),   # the next two whole numbers after the time reached, given as Python ints
    ("time_course_int", {"as": "array"}),  # ... as an integer numpy array
    ("protocol", {"steps": 2}),
    ("protocol_time_course", {"points": [0.25, 1.0], "relative": False}),
    ("protocol_time_course", {"points": [0.25, 1.0], "relative": True}),
    ("protocol_time_course", {"points": [0.25, 1.0], "relative": True, "shared": True}),  # the caller's own array object, used again and again
    ("update_parameter", {"name": "k", "factor": 2.0}),
    ("update_parameters", {"c_add": 1.0}),
    ("scale_parameter", {"name": "k", "factor": 0.5}),
    ("update_parameter", {"name": "c", "set": 0.0}),  # exactly zero is a value like any other
    ("update_parameters", {"c_set": 0}),
    ("protocol", {"steps": 2, "zero": True}),          # a protocol whose first step switches the influx off (c = 0)
    ("update_variable", {"value": 2.0}),
    ("update_variables", {"value": 0.5}),
    ("update_variables", {"value": "recorded"}),  # back to the last recorded value (read from the result) - e.g. after another override
    ("steady_state", {}),
    ("clear_results", {}),
]
PROTOCOL = [(0.5, {"k": 2.0}), (1.0, {"k": 0.5})]
PROTOCOL_ZERO = [(0.5, {"c": 0.0}), (1.0, {"c": 2.0})]
# "rich": the same equations as "auto", but k and x reach the rate through a derived parameter and a derived
# variable (every parameter update has something to re-resolve; a lean model has nothing)
VARIANTS = {"auto": {"k": 1.0, "c": 2.0, "a": 0.0}, "timedep": {"k": 1.0, "c": 2.0, "a": 0.5}, "rich": {"k": 1.0, "c": 2.0, "a": 0.0}}
X0 = 1.0


def _int_points(T):
    """The next two whole numbers strictly after T, as Python ints."""
    first = math.floor(T + 1e-9) + 1
    return [first, first + 1]


def _off(T, r):
    """Offset of a requested point from the reached time T ('eps' = 1e-6 relative, far above round-off)."""
    return 1e-6 * max(1.0, abs(T)) if r == "eps" else r


def r_in(c, a, time):
    return c + a * time


def r_out(k, x):
    return k * x


def ident(v):
    return v


def make_model(variant):
    from mxlpy import Model

    p = VARIANTS[variant]
    m = Model()
    m.add_variable("x", X0)
    m.add_parameters(dict(p))
    m.add_reaction("v_in", r_in, args=["c", "a", "time"], stoichiometry={"x": 1})
    if variant == "rich":
        m.add_derived("kd", ident, args=["k"])
        m.add_derived("xd", ident, args=["x"])
        m.add_reaction("v_out", r_out, args=["kd", "xd"], stoichiometry={"x": -1})
    else:
        m.add_reaction("v_out", r_out, args=["k", "x"], stoichiometry={"x": -1})
    return m


def closed_form(t, t0, x0, p):
    k, c, a = p["k"], p["c"], p["a"]
    if k == 0:
        return x0 + c * (t - t0) + a * (t * t - t0 * t0) / 2
    xp = lambda s: c / k + (a / k) * s - a / (k * k)  # noqa: E731
    return xp(t) + (x0 - xp(t0)) * math.exp(-k * (t - t0))


class Reference:
    """Boring reference: segments (t0, x0, t1, params), refusal rule, requested points."""

    def __init__(self, variant):
        self.params = dict(VARIANTS[variant])
        self.T = 0.0
        self.x = X0
        self.segments = []  # dicts: t0, x0, t1, params, kind
        self.requested = []  # absolute times that must be present exactly once
        self.has_rows = False
        self.start_unknown = False  # after clear_results
        self.recorded = None

    def key(self):
        return sha12([round(self.T, 9), None if self.x is None else round(self.x, 7), sorted(self.params.items()),
                      len(self.segments), self.has_rows, self.start_unknown])

    def _segment(self, t1, kind="ode"):
        self.segments.append({"t0": self.T, "x0": self.x, "t1": t1, "params": dict(self.params), "kind": kind})
        if not self.has_rows:
            self.requested.append(self.T)
        self.has_rows = True
        self.x = None if self.x is None else closed_form(t1, self.T, self.x, self.params)
        self.recorded = self.x  # the state at the end of the recorded trajectory
        self.T = t1

    def expected_at(self, t):
        """Closed-form value at absolute time t (None if unknown)."""
        for i, s in enumerate(self.segments):
            first = i == 0 or self.segments[i - 1].get("cleared")
            if (s["t0"] < t <= s["t1"] + 1e-12) or (t == s["t0"] and (i == 0)):
                if s["kind"] == "ss":
                    return s["x1"] if abs(t - s["t1"]) < 1e-9 else None
                if s["x0"] is None:
                    return None
                return closed_form(t, s["t0"], s["x0"], s["params"])
        return None


_SHARED_GRIDS = {}  # id(simulator) -> the caller's time-point array of that history


def apply_real(sim, op, T):
    """Apply one operation to the real Simulator; returns ('ok'|'refused'|'raised', info)."""
    import mxlpy
    import numpy as np

    name, a = op
    try:
        if name == "simulate":
            sim.simulate(T + a["d"], steps=a["steps"])
        elif name == "time_course":
            sim.simulate_time_course(np.array([T + _off(T, r) for r in a["rel"]], dtype=float))
        elif name == "time_course_int":
            pts = _int_points(T)
            sim.simulate_time_course(pts if a["as"] == "list" else np.array(pts, dtype=int))
        elif name == "protocol":
            sim.simulate_protocol(mxlpy.make_protocol(PROTOCOL_ZERO if a.get("zero") else PROTOCOL), time_points_per_step=a["steps"])
        elif name == "protocol_time_course":
            pts = a["points"] if a["relative"] else [T + r for r in a["points"]]
            arr = np.array(pts, dtype=float)
            if a.get("shared"):
                # one array object per simulator, handed in every time: it belongs to the caller
                arr = _SHARED_GRIDS.get(id(sim))
                if arr is None:
                    arr = np.array(pts, dtype=float)
                    _SHARED_GRIDS[id(sim)] = arr
                if arr.tolist() != [float(p) for p in pts]:
                    return "raised", f"CallerArrayModified: the caller's time-point array was changed in place by an earlier call: {arr.tolist()} instead of {pts}"
            sim.simulate_protocol_time_course(mxlpy.make_protocol(PROTOCOL), arr, time_points_as_relative=a["relative"])
            if a.get("shared") and arr.tolist() != [float(p) for p in pts]:
                return "raised", f"CallerArrayModified: the caller's time-point array was changed in place: {arr.tolist()} instead of {pts}"
        elif name == "update_parameter" and "set" in a:
            sim.update_parameter(a["name"], a["set"])
        elif name == "update_parameter":
            sim.update_parameter(a["name"], sim.model.get_parameter_values()[a["name"]] * a["factor"])
        elif name == "update_parameters" and "c_set" in a:
            sim.update_parameters({"c": a["c_set"]})
        elif name == "update_parameters":
            sim.update_parameters({"c": sim.model.get_parameter_values()["c"] + a["c_add"]})
        elif name == "scale_parameter":
            sim.scale_parameter(a["name"], a["factor"])
        elif name == "update_variable":
            sim.update_variable("x", a["value"])
        elif name == "update_variables":
            val = a["value"]
            if val == "recorded":
                val = None
                try:
                    val = float(sim.get_result().unwrap_or_err().variables["x"].iloc[-1])
                except Exception:  # noqa: BLE001 - nothing recorded yet: the operation is skipped
                    val = None
            if val is not None:
                sim.update_variables({"x": val})
        elif name == "steady_state":
            sim.simulate_to_steady_state()
        elif name == "clear_results":
            sim.clear_results()
        else:
            raise HarnessError(name)
    except ValueError as exc:
        return "refused", str(exc)
    except HarnessError:
        raise
    except Exception as exc:  # noqa: BLE001
        return "raised", f"{type(exc).__name__}: {exc}"
    return "ok", ""


def apply_ref(ref: Reference, op):
    """Returns 'refuse' or 'ok'; mutates the reference when ok."""
    name, a = op
    T = ref.T
    if name == "simulate":
        t_end = T + a["d"]
        if t_end <= T:
            return "refuse"
        ref._segment(t_end)
        ref.requested.append(t_end)
        return "ok"
    if name in ("time_course", "time_course_int"):
        pts = [T + _off(T, r) for r in a["rel"]] if name == "time_course" else [float(p) for p in _int_points(T)]
        if pts[-1] <= T:
            return "refuse"
        ref._segment(pts[-1])
        ref.requested.extend(p for p in pts if p > T)
        return "ok"
    if name in ("protocol", "protocol_time_course"):
        if name == "protocol_time_course":
            pts = [T + r for r in a["points"]]  # relative points are relative to the time reached
            if pts[-1] <= T:
                return "refuse"
        t = T
        proto = PROTOCOL_ZERO if a.get("zero") else PROTOCOL
        end = T + sum(d for d, _ in proto)
        bounds = []
        for d, pars in proto:
            ref.params.update(pars)
            t += d
            ref._segment(t)
            bounds.append(t)
        ref.requested.extend(bounds)
        if name == "protocol_time_course":
            ref.requested.extend(p for p in pts if T < p <= end and all(abs(p - b) > 1e-12 for b in bounds))
        return "ok"
    if name == "update_parameter":
        ref.params[a["name"]] = float(a["set"]) if "set" in a else ref.params[a["name"]] * a["factor"]
        return "ok"
    if name == "update_parameters":
        ref.params["c"] = float(a["c_set"]) if "c_set" in a else ref.params["c"] + a["c_add"]
        return "ok"
    if name == "scale_parameter":
        ref.params[a["name"]] *= a["factor"]
        return "ok"
    if name in ("update_variable", "update_variables"):
        if a["value"] == "recorded":
            if not ref.has_rows or ref.recorded is None:
                return "ok"  # nothing recorded (or not known to the reference): skipped / unchanged
            ref.x = ref.recorded
        else:
            ref.x = a["value"]
        ref.start_unknown = False
        return "ok"
    if name == "steady_state":
        return "ss"
    if name == "clear_results":
        ref.T = 0.0
        ref.segments = []
        ref.requested = []
        ref.has_rows = False
        ref.x = None  # start state after a clear is not prescribed
        ref.start_unknown = True
        return "ok"
    raise HarnessError(name)


def observe(sim):
    res = sim.get_result()
    val = res.value
    if isinstance(val, Exception):
        return {"error": type(val).__name__}
    import pandas as pd

    frames = val.raw_variables
    times = []
    xs = []
    seglen = []
    for f in frames:
        times.extend(float(t) for t in f.index)
        xs.extend(float(v) for v in f["x"].to_numpy())
        seglen.append(len(f))
    return {"times": times, "x": xs, "seglen": seglen, "params": [dict(p) for p in val.raw_parameters]}


def _close(a, b):
    return abs(a - b) <= ATOL + RTOL * max(abs(a), abs(b))


def compare(ref: Reference, obs, opname):
    """Return (symptom, detail) or None."""
    if not ref.has_rows:
        if obs.get("error") == "IntegrationFailure" or obs.get("times") in ([], None):
            return None
        if "times" in obs and obs["times"]:
            return "rows-without-segment", f"{len(obs['times'])} rows although nothing was simulated"
        return None
    if "error" in obs:
        return "result-is-error", f"get_result() is {obs['error']} although the reference has rows"
    times, xs = obs["times"], obs["x"]
    for i in range(1, len(times)):
        if not times[i] > times[i - 1]:
            return "axis-not-increasing", f"time axis not strictly increasing at row {i}: {times[max(0, i - 2): i + 2]}"
    for rq in ref.requested:
        n = sum(1 for t in times if abs(t - rq) <= 1e-9 * max(1.0, abs(rq)))
        if n != 1:
            return "requested-point-count", f"requested time {rq} occurs {n} times in axis {times[:4]}...{times[-4:]}"
    if times and abs(times[-1] - ref.T) > 1e-9 * max(1.0, abs(ref.T)):
        return "wrong-end-time", f"axis ends at {times[-1]}, reference reached {ref.T}"
    # values
    # resolve unknown start states (after clear_results) from the first reported row of that segment
    for i, s in enumerate(ref.segments):
        if s["x0"] is None:
            for t, x in zip(times, xs, strict=True):
                if abs(t - s["t0"]) <= 1e-12:
                    s["x0"] = x
                    break
            if s["x0"] is None:
                return "start-row-missing", f"no row at segment start {s['t0']}"
            # propagate to following segments without an explicit start
            xv = s["x0"]
            for s2 in ref.segments[i:]:
                if s2 is not s and s2["x0"] is not None:
                    break
                s2["x0"] = xv
                xv = closed_form(s2["t1"], s2["t0"], xv, s2["params"]) if s2["kind"] == "ode" else s2.get("x1")
            if ref.x is None:
                ref.x = xv
    for t, x in zip(times, xs, strict=True):
        e = ref.expected_at(t)
        if e is None:
            continue
        if not _close(x, e):
            return "wrong-value", f"x({t})={x} expected {e}"
    # per-segment parameters
    if len(obs["params"]) != len(ref.segments):
        return "segment-count", f"{len(obs['params'])} parameter records for {len(ref.segments)} segments"
    for i, (p, s) in enumerate(zip(obs["params"], ref.segments, strict=True)):
        for n in ("k", "c", "a"):
            if not _close(float(p[n]), s["params"][n]):
                return "wrong-segment-parameters", f"segment {i}: {n}={p[n]} expected {s['params'][n]}"
    return None


def run_history(variant, hist):
    """Execute a history on the real Simulator and the reference, checking after every operation.

    Returns (failure|None, failing_step, digest, ref) where failure = (symptom, detail).
    """
    from mxlpy import Simulator

    sim = Simulator(make_model(variant))
    _SHARED_GRIDS.pop(id(sim), None)
    ref = Reference(variant)
    produced = 0
    digest = []
    for step, oi in enumerate(hist):
        op = OPS[oi]
        before = observe(sim)
        T = ref.T
        status, info = apply_real(sim, op, T)
        if status == "raised":
            return ("exception:" + info.split(":")[0], f"{op} raised {info}"), step, digest, ref, produced
        # decide what the reference says
        import copy

        ref_try = copy.deepcopy(ref)
        verdict = apply_ref(ref_try, op)
        if verdict == "refuse":
            if status != "refused":
                return ("illegal-continuation-accepted", f"{op} at reached time {T} must be refused but was accepted"), step, digest, ref, produced
            after = observe(sim)
            if after != before:
                return ("refused-but-changed", f"{op} was refused but the result changed"), step, digest, ref, produced
            digest.append("refused")
            continue
        if status == "refused":
            return ("legal-continuation-refused", f"{op} at reached time {T} (end later than reached) was refused: {info}"), step, digest, ref, produced
        obs = observe(sim)
        if verdict == "ss":
            # steady state of the autonomous model: c/k, reported at a time later than T,
            # and it becomes the start of the next segment
            p = ref.params
            if "error" in obs:
                return ("result-is-error", f"steady-state run gave {obs['error']}"), step, digest, ref, produced
            t_ss = obs["times"][-1] if obs["times"] else None
            x_ss = p["c"] / p["k"]
            if t_ss is None or not t_ss > T:
                return ("steady-state-time-not-later", f"steady state reported at t={t_ss}, time already reached {T}; axis tail {obs['times'][-3:]}"), step, digest, ref, produced
            ref = ref_try
            if not ref.has_rows:
                # a steady-state run on a fresh simulator reports only the final row
                ref.has_rows = True
            ref.segments.append({"t0": ref.T, "x0": x_ss if ref.x is None else ref.x, "t1": t_ss, "params": dict(p), "kind": "ss", "x1": x_ss})
            ref.requested.append(t_ss)
            ref.T = t_ss
            ref.x = x_ss
            ref.recorded = x_ss
            if abs(obs["x"][-1] - x_ss) > 1e-4 * max(1.0, abs(x_ss)):
                return ("steady-state-wrong", f"steady state x={obs['x'][-1]} expected {x_ss}"), step, digest, ref, produced
        else:
            ref = ref_try
        if OPS[oi][0] in ("simulate", "time_course", "time_course_int", "protocol", "protocol_time_course", "steady_state"):
            produced += 1
        bad = compare(ref, obs, op[0])
        if bad is not None:
            return (bad[0] + ":" + op[0], bad[1]), step, digest, ref, produced
        digest.append(sha12(obs))
    return None, len(hist), digest, ref, produced


def check(case):
    variant, hist = case["variant"], case["hist"]
    fail, step, digest, ref, produced = run_history(variant, hist)
    if case.get("prefix_digest") is not None and digest[: len(case["prefix_digest"])] != case["prefix_digest"]:
        raise HarnessError(f"replay of prefix diverged for {case}")
    nontrivial = len(hist) >= 2 and produced >= 1
    txt = f"variant={variant} history={[OPS[i] for i in hist]}"
    if fail is not None:
        if case.get("walk"):
            txt = f"variant={variant} long walk, failed at step {step}: history={[OPS[i] for i in hist[: step + 1]]}"
        elif step < len(hist) - 1:
            raise HarnessError(f"a prefix that passed before now fails at step {step}: {fail} | {txt}")
        o = outcome(False, fail[0].split(":")[0], symptom=fail[0], nontrivial=nontrivial, detail=f"{fail[1]} | {txt}")
        o["expanded"] = False
        return o
    o = outcome(True, "conforms", nontrivial=nontrivial)
    o["expanded"] = True
    o["digest"] = digest
    o["refkey"] = ref.key()
    return o


def replay(case):
    c = dict(case)
    c.pop("prefix_digest", None)
    # a replayed history may fail at an earlier step than its last one if the tree changed: report it
    fail, step, _d, _r, _p = run_history(c["variant"], c["hist"])
    if fail is None:
        return outcome(True, "conforms")
    return outcome(False, fail[0].split(":")[0], symptom=fail[0], detail=f"{fail[1]} at step {step}")


def _ops_in(case, *names):
    return any(OPS[i][0] in names for i in case["hist"])


def describe(case):
    return {"variant": case["variant"], "history": [list(OPS[i]) for i in case["hist"]]}


PREDICATES = {}


def run(ctx):
    depth = 3 if ctx.tier == "quick" else 4
    states = set()
    transitions = 0
    frontier = []
    for variant in VARIANTS:
        frontier.append((variant, [], []))
    # start from non-initial states too: histories that have already been verified at depth <= 2 are used
    # as additional roots, so that depth d from them covers selected histories of length d + 2
    idx = {repr(op): i for i, op in enumerate(OPS)}
    sim05 = idx[repr(("simulate", {"d": 0.5, "steps": None}))]
    upd = idx[repr(("update_variable", {"value": 2.0}))]
    ss = idx[repr(("steady_state", {}))]
    roots = [[sim05, upd], [sim05, idx[repr(("update_parameter", {"name": "k", "factor": 2.0}))]]]
    for variant in VARIANTS:
        for root in roots + ([[ss]] if variant != "timedep" else []):
            fail, _step, digest, _ref, _p = run_history(variant, root)
            if fail is None:
                frontier.append((variant, list(root), digest))
    # total history length is bounded by depth + 1: the (length <= 2) non-initial roots are extended one level less
    for d in range(1, depth + 1):
        cases = []
        for variant, hist, dig in frontier:
            if len(hist) >= depth + 1:
                continue
            for oi, op in enumerate(OPS):
                if variant == "timedep" and op[0] == "steady_state":
                    continue  # no steady state exists for the time-dependent variant
                cases.append({"variant": variant, "hist": hist + [oi], "prefix_digest": dig})
        res = ctx.evaluate(cases, keep=True, timeout=120)
        transitions += len(cases)
        nxt = []
        for c, r in zip(cases, res, strict=True):
            if r.get("expanded"):
                states.add(r["refkey"])
                nxt.append((c["variant"], c["hist"], r["digest"]))
        ctx.note(f"depth {d}: {len(cases)} histories executed, {len(nxt)} conform and are extended, {len(states)} distinct reference states")
        frontier = nxt
    # long walks: every rotation of the whole alphabet (and of its reverse) as ONE history of 23 operations - far
    # beyond the BFS depth, at the price of 2 x 23 histories per variant
    walks = []
    for variant in VARIANTS:
        allowed = [i for i, op in enumerate(OPS) if not (variant == "timedep" and op[0] == "steady_state")]
        for seq in (allowed, allowed[::-1]):
            for r in range(len(seq)):
                walks.append({"variant": variant, "hist": seq[r:] + seq[:r], "prefix_digest": None, "walk": True})
    ctx.evaluate(walks, timeout=300)
    transitions += len(walks)
    ctx.note(f"{len(walks)} long walks of {len(OPS)} operations each")
    ctx.coverage_extra.update(
        {"states": len(states), "transitions": transitions, "long_walks": len(walks), "traces_validated_against_impl": transitions,
         "depth": depth, "alphabet": len(OPS), "variants": list(VARIANTS)}
    )
