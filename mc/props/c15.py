"""C15 - steady-state results are steady states; absence is reported as failure.

Linear networks with a unique stable steady state (analytic solution by linear algebra) x rate
constants x influx x initial values x tolerances x norm modes, and networks without a steady state
(must yield a failure value), through Simulator.simulate_to_steady_state and scan.steady_state.
"""

from __future__ import annotations

import itertools as it
import math

from mc.core import outcome

ID = "C15"
LEVEL = "exploration"
TECHNIQUE = "bounded-exhaustive enumeration of linear networks x rate grid x initial values x tolerances x norm modes against the linear-algebra steady state"
LEVEL_TEXT = (
    "Four stable linear network families (1-3 variable chains with influx/efflux, a branch, a reversible pair with a "
    "conserved total) over a grid of rate constants incl. slow ones (relaxation times up to 100), three initial-value "
    "modes, three tolerances and both norm modes, plus four families without a steady state (pure influx, chain without "
    "efflux, exponential growth, constant drift), are run through Simulator.simulate_to_steady_state and "
    "scan.steady_state. A reported success must equal the analytic steady state within 100 x tolerance with balanced "
    "fluxes; networks without a steady state must give a failure value."
    " Added: empty pools as start, the search continued after a segment shorter than / equal to / longer than "
    "its own step, the search after a failed search, fast growth (k up to 50). "
    ' Also: start values a million times the steady-state scale, and searches that follow a prior segment of 5 / 100 / 250 time units.'
    ' Also: scan.steady_state over tables that mix rows with and without a steady state under unique / repeated / string / all-equal row labels.'
)
LEVEL_NOTE = "trusted: numpy.linalg.solve for the analytic steady state; a *failure* reported for a network that has a steady state (e.g. relative norm with a zero-valued variable) is not counted as a violation"
RULE = (
    "case = (network, rate constants, influx, initial-value mode, tolerance, norm mode, entry point); product "
    "enumerated completely. Non-trivial = every case (each is a separate integration); distinct = distinct tuples."
)
ASSUMPTIONS = ["linear mass-action networks; Scipy integrator"]

RATES_Q = [0.02, 0.1, 1.0, 3.0]
RATES_T = [0.01, 0.02, 0.1, 0.5, 1.0, 3.0]
INFLUX = [0.0, 1.0, 2.0]
Y0MODES = ["default", "low", "high", "zero", "huge"]  # huge: a million times the steady-state scale
TOLS = [1e-4, 1e-6, 1e-8]


def const_in(c):
    return c


def ma(s, k):
    return k * s


def grow(s, k):
    return k * s


def build(net, ks, c):
    from mxlpy import Model

    m = Model()
    if net == "one":
        m.add_variable("x", 1.0).add_parameters({"c": c, "k1": ks[0]})
        m.add_reaction("vin", const_in, args=["c"], stoichiometry={"x": 1})
        m.add_reaction("v1", ma, args=["x", "k1"], stoichiometry={"x": -1})
    elif net in ("chain2", "chain3", "noefflux"):
        n = 3 if net == "chain3" else 2
        names = ["x", "y", "z"][:n]
        m.add_variables({v: 1.0 + 0.5 * i for i, v in enumerate(names)})
        m.add_parameters({"c": c, **{f"k{i + 1}": ks[i % len(ks)] for i in range(n)}})
        m.add_reaction("vin", const_in, args=["c"], stoichiometry={"x": 1})
        for i in range(n - 1):
            m.add_reaction(f"v{i + 1}", ma, args=[names[i], f"k{i + 1}"], stoichiometry={names[i]: -1, names[i + 1]: 1})
        if net != "noefflux":
            m.add_reaction(f"v{n}", ma, args=[names[-1], f"k{n}"], stoichiometry={names[-1]: -1})
    elif net == "branch":
        m.add_variables({"x": 1.0, "y": 0.5, "z": 2.0})
        m.add_parameters({"c": c, "k1": ks[0], "k2": ks[1], "k3": ks[0], "k4": ks[1]})
        m.add_reaction("vin", const_in, args=["c"], stoichiometry={"x": 1})
        m.add_reaction("v1", ma, args=["x", "k1"], stoichiometry={"x": -1, "y": 1})
        m.add_reaction("v2", ma, args=["x", "k2"], stoichiometry={"x": -1, "z": 1})
        m.add_reaction("v3", ma, args=["y", "k3"], stoichiometry={"y": -1})
        m.add_reaction("v4", ma, args=["z", "k4"], stoichiometry={"z": -1})
    elif net == "reversible":
        m.add_variables({"x": 1.0, "y": 2.0})
        m.add_parameters({"k1": ks[0], "k2": ks[1]})
        m.add_reaction("vf", ma, args=["x", "k1"], stoichiometry={"x": -1, "y": 1})
        m.add_reaction("vr", ma, args=["y", "k2"], stoichiometry={"y": -1, "x": 1})
    elif net == "influx-only":
        m.add_variable("x", 1.0).add_parameters({"c": c})
        m.add_reaction("vin", const_in, args=["c"], stoichiometry={"x": 1})
    elif net == "growth":
        m.add_variable("x", 1.0).add_parameters({"k1": ks[0]})
        m.add_reaction("vg", grow, args=["x", "k1"], stoichiometry={"x": 1})
    else:
        raise ValueError(net)
    return m


def analytic(m, y0):
    """Steady state of the linear network dx/dt = A x + b (with the conserved total where A is singular)."""
    import numpy as np

    names = m.get_variable_names()
    n = len(names)
    zero = dict.fromkeys(names, 0.0)
    b = np.array([float(m.get_right_hand_side(zero)[v]) for v in names])
    A = np.zeros((n, n))
    for j, v in enumerate(names):
        e = dict(zero)
        e[v] = 1.0
        col = np.array([float(m.get_right_hand_side(e)[u]) for u in names]) - b
        A[:, j] = col
    if abs(np.linalg.det(A)) > 1e-14:
        return dict(zip(names, np.linalg.solve(A, -b), strict=True)), A
    # conserved total (reversible pair): replace the last equation by sum(x) = sum(y0)
    A2 = A.copy()
    b2 = b.copy()
    A2[-1, :] = 1.0
    b2[-1] = -sum(y0[v] for v in names)
    return dict(zip(names, np.linalg.solve(A2, -b2), strict=True)), A


# length of the segment simulated before the steady-state search: shorter than, equal to and longer than the
# search's own step (100 time units)
PRIOR = (5.0, 100.0, 250.0)


def generate(tier):
    rates = RATES_Q if tier == "quick" else RATES_T
    cases = []
    for net in ("one", "chain2", "chain3", "branch", "reversible"):
        nk = {"one": 1, "chain2": 2, "chain3": 2, "branch": 2, "reversible": 2}[net]
        for ks in it.product(rates, repeat=nk):
            for c in (INFLUX if net != "reversible" else [0.0]):
                for y0m, tol, rel in it.product(Y0MODES, TOLS, (False, True)):
                    cases.append({"net": net, "ks": list(ks), "c": c, "y0": y0m, "tol": tol, "rel": rel, "via": "simulator", "stable": True})
                for y0m, rel in it.product(("default", "high"), (False, True)):
                    cases.append({"net": net, "ks": list(ks), "c": c, "y0": y0m, "tol": 1e-6, "rel": rel, "via": "scan", "stable": True})
                    for prior in PRIOR:
                        cases.append({"net": net, "ks": list(ks), "c": c, "y0": y0m, "tol": 1e-6, "rel": rel, "via": "simulator-continued", "prior": prior, "stable": True})
    for net, ks_list, cs in (("influx-only", [[0.0]], [0.001, 1.0, 2.0]), ("noefflux", [[k] for k in rates], [1.0, 2.0]),
                             ("growth", [[0.02], [0.1], [1.0], [5.0], [10.0], [50.0]], [0.0])):
        for ks in ks_list:
            for c in cs:
                for y0m, tol, rel in it.product(Y0MODES, TOLS, (False, True)):
                    if net == "growth" and y0m == "zero":
                        continue  # x = 0 is a (unstable) steady state of dx/dt = k x
                    if net != "growth" and y0m == "huge" and rel:
                        # linear accumulation on top of a pool of 1e6: the RELATIVE change per search step (c * 100 / 1e6) is
                        # below every requested relative tolerance - by the criterion the caller asked for this is at rest
                        continue
                    cases.append({"net": net, "ks": ks, "c": c, "y0": y0m, "tol": tol, "rel": rel, "via": "simulator", "stable": False})
                for rel in (False, True):
                    cases.append({"net": net, "ks": ks, "c": c, "y0": "default", "tol": 1e-6, "rel": rel, "via": "scan", "stable": False})
                    for prior in PRIOR:
                        if net == "growth" and ks[0] * prior > 100:
                            continue  # the earlier segment itself would leave the floating point range (not this property's subject)
                        cases.append({"net": net, "ks": ks, "c": c, "y0": "default", "tol": 1e-6, "rel": rel, "via": "simulator-continued", "prior": prior, "stable": False})
    return cases


def check_table(case):
    """scan.steady_state over a table that mixes rows with and without a steady state: every row reports ITS steady state
    (x* = c / k1, y* = c / k2) or absence (k2 = 0: y accumulates), whatever the table's row labels are."""
    import warnings

    import pandas as pd
    from mxlpy import scan

    warnings.simplefilter("ignore")
    m = build("chain2", [1.0, 1.0], case["c"])
    k2s = list(case["k2"])
    labels = {"unique": list(range(len(k2s))), "repeated": [i % 2 for i in range(len(k2s))], "strings": ["ab"[i % 2] for i in range(len(k2s))],
              "all-equal": [7] * len(k2s)}[case["labels"]]
    df = pd.DataFrame({"k2": k2s}, index=labels)
    txt = f"{case}"
    try:
        sc = scan.steady_state(m, to_scan=df, parallel=case["parallel"], rel_norm=False)
        got_v, got_f = sc.variables, sc.fluxes
    except Exception as exc:  # noqa: BLE001
        return outcome(False, "raised", symptom=f"table:raised:{type(exc).__name__}", detail=f"{type(exc).__name__}: {exc} | {txt}")
    if len(got_v) != len(k2s) or len(sc.raw_results) != len(k2s):
        return outcome(False, "misaligned", symptom="table:row-count-differs", detail=f"{len(got_v)} rows / {len(sc.raw_results)} results for {len(k2s)} scan rows | {txt}")
    for pos, k2 in enumerate(k2s):
        row = got_v.iloc[pos]
        if k2 == 0.0:
            if not row.isna().all():
                return outcome(False, "false-steady-state", symptom="table:false-steady-state", detail=f"row {pos} (k2 = 0, no steady state) reports {row.to_dict()} | {txt}")
            continue
        if row.isna().all():
            continue  # a failure for a row that has a steady state is allowed (6.1)
        exp = {"x": case["c"] / 1.0, "y": case["c"] / k2}
        for v, e in exp.items():
            if abs(float(row[v]) - e) > 1e-4 * max(1.0, abs(e)):
                return outcome(False, "not-a-steady-state", symptom="table:not-the-rows-steady-state", detail=f"row {pos} (k2 = {k2}): {v} = {float(row[v])}, analytic {e} | {txt}")
        if abs(float(got_f.iloc[pos]["v2"]) - case["c"]) > 1e-4 * max(1.0, case["c"]):
            return outcome(False, "fluxes-unbalanced", symptom="table:fluxes-not-the-rows", detail=f"row {pos}: v2 = {float(got_f.iloc[pos]['v2'])}, at steady state it equals the influx {case['c']} | {txt}")
    return outcome(True, "table-rows-correct", nontrivial=True)


def check(case):
    if case.get("family") == "table":
        return check_table(case)
    import warnings

    import numpy as np
    import pandas as pd
    from mxlpy import Simulator, scan

    warnings.simplefilter("ignore")
    m = build(case["net"], case["ks"], case["c"])
    names = m.get_variable_names()
    y0 = None
    if case["y0"] == "low":
        y0 = dict.fromkeys(names, 0.1)
    elif case["y0"] == "high":
        y0 = {v: 10.0 + i for i, v in enumerate(names)}
    elif case["y0"] == "zero":
        y0 = dict.fromkeys(names, 0.0)  # empty pools
    elif case["y0"] == "huge":
        y0 = {v: 1.0e6 * (1 + i) for i, v in enumerate(names)}
    start = m.get_initial_conditions() if y0 is None else y0
    txt = f"{case}"
    success = None
    state = None
    fluxes = None
    try:
        if case["via"] in ("simulator", "simulator-continued"):
            sim = Simulator(m, y0=y0)
            if case["via"] == "simulator-continued":
                sim.simulate(case.get("prior", 5.0), steps=5)  # an earlier, successful segment
            res = sim.simulate_to_steady_state(tolerance=case["tol"], rel_norm=case["rel"]).get_result()
            if isinstance(res.value, Exception):
                success = False
            else:
                success = True
                state = {v: float(res.value.variables[v].iloc[-1]) for v in names}
                fluxes = {r: float(res.value.fluxes[r].iloc[-1]) for r in res.value.fluxes.columns}
        else:
            # scan one row over a parameter that does not change the model (k1 := its own value)
            par = "k1" if "k1" in m.get_parameter_names() else "c"
            val = m.get_parameter_values()[par]
            sc = scan.steady_state(m, to_scan=pd.DataFrame({par: [val]}), y0=y0, parallel=False, rel_norm=case["rel"])
            row = sc.variables.iloc[0]
            if row.isna().all():
                success = False
            else:
                success = True
                state = {v: float(row[v]) for v in names}
                fluxes = {r: float(sc.fluxes.iloc[0][r]) for r in sc.fluxes.columns}
    except Exception as exc:  # noqa: BLE001
        return outcome(False, "raised", symptom=f"raised:{type(exc).__name__}", detail=f"{type(exc).__name__}: {exc} | {txt}")
    if not case["stable"]:
        if success:
            return outcome(False, "false-steady-state", symptom="false-steady-state:divergent", detail=f"network without a steady state reported {state} as steady | {txt}")
        return outcome(True, "failure-reported")
    if not success:
        return outcome(True, "failure-for-stable-network")  # allowed (6.1): not a false success
    mref = build(case["net"], case["ks"], case["c"])
    exp, _A = analytic(mref, start)
    scale = 100 * case["tol"]
    for v in names:
        if abs(state[v] - exp[v]) > scale * max(1.0, abs(exp[v])):
            return outcome(False, "not-a-steady-state", symptom="not-a-steady-state", detail=f"{v}={state[v]} analytic {exp[v]} (tolerance {case['tol']}) | {txt}")
    # reported fluxes balance
    rhs = mref.get_right_hand_side(state)
    for v in names:
        if abs(float(rhs[v])) > scale * max(1.0, max(abs(f) for f in fluxes.values())):
            return outcome(False, "fluxes-unbalanced", symptom="fluxes-unbalanced", detail=f"d{v}/dt={float(rhs[v])} at the reported state | {txt}")
    stoich = mref.get_stoichiometries()
    for v in names:
        tot = sum(float(stoich.loc[v, r]) * fluxes[r] for r in stoich.columns)
        if abs(tot) > scale * max(1.0, max(abs(f) for f in fluxes.values())):
            return outcome(False, "fluxes-unbalanced", symptom="reported-fluxes-unbalanced", detail=f"N.v[{v}]={tot} with reported fluxes {fluxes} | {txt}")
    return outcome(True, "steady-state-correct")


PREDICATES = {}


def run(ctx):
    cases = generate(ctx.tier)
    # tables that mix rows with and without a steady state, under several kinds of row labels
    for k2, labels, parallel, c in it.product(([2.0, 0.0, 0.5, 4.0], [0.0, 2.0, 0.0, 0.5], [0.5, 2.0, 4.0, 0.0], [1.0, 0.0]), ("unique", "repeated", "strings", "all-equal"),
                                               (False,), (1.0, 3.0)):  # (parallel scans are C09's subject and need non-daemonic workers)
        cases.append({"family": "table", "k2": k2, "labels": labels, "parallel": parallel, "c": c})
    ctx.note(f"{len(cases)} steady-state runs ({sum(1 for c in cases if not c.get('stable', True))} on networks without a steady state)")
    ctx.evaluate(cases, timeout=300)
