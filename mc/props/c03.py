"""C03 - edit histories: answers depend only on the model's current content.

Explicit-state BFS. A state is a real mxlpy.Model (containers + ids + cache); a transition applies one
real public mutator (or a cache-populating query) to a deep copy of it. After every transition:
  1. fresh-model differential: a Model rebuilt through the public API from the edited model's
     containers must answer every query identically (or raise the same exception class);
  2. a rejected edit changed nothing (containers + ids equal the snapshot);
  3. one name space: model.ids equals the name->kind map recomputed from the containers; adds are
     rejected iff the name is in use (or is `time`), edits of existing names are accepted.
"""

from __future__ import annotations

import os

import copy
import math

from mc.core import HarnessError, canon_json, outcome, sha12

ID = "C03"
LEVEL = "model_checking"
TECHNIQUE = "explicit-state BFS over mutator/query histories on the real Model with state hashing and a fresh-model differential oracle"
LEVEL_TEXT = (
    "Breadth-first exploration of every history of public Model mutators and cache-populating queries up to depth 2 "
    "(quick) / 3 (thorough; 4 with VERIF_C03_DEPTH=4) from four initial states (two base models, cold and warm cache), states deduplicated by a hash of all "
    "containers, the id table and the cache contents. Every transition is executed on the real object and checked "
    "against a freshly built model, a snapshot (rejected edits) and a name-space reference. Exhaustive for the "
    "alphabet and depth; longer histories and other argument values are not explored."
    ' The alphabet has grown to ~118 operations (queries that simulate and read a result, conversions parameter<->variable with explicit numbers, reactions declared from one shared dictionary); further rules on every transition: a query leaves the content unchanged, an edit changes only the reactions it names, a conversion keeps (or takes the given) value; eight long walks through the whole alphabet.'
    ' Also: plural adds whose bad entry is a name held by a component of another kind.'
)
LEVEL_NOTE = "trusted: deepcopy of Model preserves its state (asserted by replay-key equality), the rebuild-through-public-API oracle, exception classes (not messages) are compared"
RULE = (
    "transition = (initial state, history of operation indices, next operation); all enumerated up to the depth "
    "with state hashing. Non-trivial = the operation is a mutator applied after at least one earlier operation or "
    "to the warm-cache initial state; distinct = distinct (state key, operation)."
)
ASSUMPTIONS = [
    "alphabet of 117 concrete operations (105 mutator calls + 12 queries, one of them a simulation whose result views are read) over a fixed name universe (DESIGN.md C03)",
    "states reached by a failing transition are not expanded",
]

# --------------------------------------------------------------------------------------
# functions used by components (module level: identity by name, deep-copied by reference)
# --------------------------------------------------------------------------------------


def f_add(a, b):
    return a + b


def f_mul(a, b):
    return a * b


def f_sub(a, b):
    return a - b


def f_div(a, b):
    return a / b


def f_data(d, a):
    return d["a"] * a


def f_one(a):
    return a * 1.5


def s_model(a):
    return (2.0 * a, a + 1.0)


def s_model2(a):
    return (3.0 * a, a + 2.0)


FNS = {f.__name__: f for f in (f_add, f_mul, f_sub, f_div, f_data, f_one, s_model, s_model2)}


def base_model(variant=0):
    """variant 0: one of every kind incl. an initial assignment; variant 1: the same without any
    initial assignment (some cache shortcuts are only legal there)."""
    import pandas as pd
    from mxlpy import Derived, InitialAssignment, Model
    from mxlpy.surrogates import qss

    m = Model()
    m.add_variables({"x": 1.0, "y": 2.0})
    m.add_parameters({"k": 0.5, "p": 3.0, "st": 1.5})  # st is only ever used as a coefficient
    if variant == 0:
        m.add_parameter("q", InitialAssignment(fn=f_data, args=["D", "k"]))
    m.add_derived("dp", f_add, args=["k", "p"])
    m.add_derived("dv", f_mul, args=["x", "k"])
    m.add_data("D", pd.Series({"a": 2.0, "b": 1.0}))
    m.add_derived("dd", f_data, args=["D", "x"])
    shared = {"x": -1, "y": 1}  # one dictionary object used for two declarations (variant 1): the model must not keep it
    m.add_reaction("v1", f_mul, args=["x", "k"], stoichiometry=shared if variant == 1 else {"x": -1, "y": 1})
    if variant == 1:
        m.add_reaction("v1b", f_mul, args=["y", "k"], stoichiometry=shared)
    m.add_reaction("v2", f_mul, args=["y", "dp"], stoichiometry={"y": -1})
    # every kind of coefficient the cache pre-computes or defers: parameter name, parameter-computed, state-computed
    m.add_reaction(
        "v3", f_mul, args=["x", "p"],
        stoichiometry={"x": "st", "y": Derived(fn=f_one, args=["st"])},
    )
    m.add_reaction("v4", f_mul, args=["y", "k"], stoichiometry={"y": Derived(fn=f_add, args=["x", "k"])})
    m.add_readout("ro", f_div, args=["x", "y"])
    m.add_surrogate(
        "s",
        qss.Surrogate(model=s_model, args=["x"], outputs=["sa", "sb"], stoichiometries={"sa": {"x": -1.0, "y": 1.0}}),
    )
    if variant == 0:
        # values resolved once at t=0 from a reaction rate and a derived variable / from another assignment:
        # whatever changes a rate law, a derived quantity or a parameter has to reach them
        m.add_parameter("q2", InitialAssignment(fn=f_add, args=["v1", "dv"]))
        m.add_variable("w", InitialAssignment(fn=f_mul, args=["q2", "p"]))
        m.add_reaction("v5", f_mul, args=["w", "q2"], stoichiometry={"w": -1})
    return m


# --------------------------------------------------------------------------------------
# alphabet
# --------------------------------------------------------------------------------------

IA = "IA"


def _ops():
    ops = [("Q", {})]
    # every other query is an operation too: a read must not change any later answer
    for q in ("Q_stoichiometries", "Q_stoichiometries_state", "Q_right_hand_side", "Q_fluxes", "Q_call", "Q_initial_conditions",
              "Q_parameter_values", "Q_derived_names", "Q_args_time_course", "Q_stoichiometries_of_variable", "Q_simulate_and_read"):
        ops.append((q, {}))
    # adds: fresh name, same kind in use, other kind in use, surrogate output, time
    for nm in ("n1", "k", "x", "sa", "time", "dp"):
        ops.append(("add_parameter", {"name": nm, "value": 1.25}))
    for nm in ("n1", "x", "k", "sb", "time"):
        ops.append(("add_variable", {"name": nm, "value": 0.75}))
    for nm in ("n1", "dv", "k", "sb", "s"):
        ops.append(("add_derived", {"name": nm, "fn": "f_add", "args": ["x", "k"]}))
    ops.append(("add_derived", {"name": "n1", "fn": "f_add", "args": ["k", "p"]}))
    for nm in ("n1", "v1", "x", "ro"):
        ops.append(("add_reaction", {"name": nm, "fn": "f_mul", "args": ["y", "k"], "stoich": {"y": -1, "x": 1}}))
    for nm in ("n1", "ro", "x", "D"):
        ops.append(("add_readout", {"name": nm, "fn": "f_sub", "args": ["x", "y"]}))
    ops.append(("add_surrogate", {"name": "n2", "outputs": ["o1", "o2"], "stoich": {"o1": {"y": -1.0}}}))
    ops.append(("add_surrogate", {"name": "s", "outputs": ["o1", "o2"], "stoich": {}}))
    ops.append(("add_surrogate", {"name": "n2", "outputs": ["o1", "x"], "stoich": {}}))
    ops.append(("add_surrogate", {"name": "n2", "outputs": ["o1", "n2"], "stoich": {}}))
    ops.append(("add_surrogate", {"name": "n1", "outputs": ["o1", "o2"], "stoich": {}}))
    for nm in ("n1", "D", "x"):
        ops.append(("add_data", {"name": nm}))
    # removes: existing, unknown, fresh-name variants
    for nm in ("p", "k", "zz", "n1"):
        ops.append(("remove_parameter", {"name": nm}))
    for nm in ("y", "zz", "n1"):
        ops.append(("remove_variable", {"name": nm}))
    for nm in ("dv", "dp", "zz", "n1"):
        ops.append(("remove_derived", {"name": nm}))
    for nm in ("v1", "zz", "n1"):
        ops.append(("remove_reaction", {"name": nm}))
    for nm in ("ro", "zz", "n1"):
        ops.append(("remove_readout", {"name": nm}))
    for nm in ("s", "zz", "n2"):
        ops.append(("remove_surrogate", {"name": nm}))
    for nm in ("D", "zz", "n1"):
        ops.append(("remove_data", {"name": nm}))
    # updates
    ops.append(("update_parameter", {"name": "k", "value": 2.0}))
    ops.append(("update_parameter", {"name": "zz", "value": 2.0}))
    ops.append(("update_parameter", {"name": "st", "value": 2.5}))
    ops.append(("scale_parameter", {"name": "st", "factor": 3.0}))
    ops.append(("update_parameter", {"name": "p", "value": [IA, "f_add", ["x", "y"]]}))
    ops.append(("update_variable", {"name": "x", "value": 5.0}))
    ops.append(("update_variable", {"name": "zz", "value": 5.0}))
    ops.append(("update_variable", {"name": "y", "value": [IA, "f_add", ["x", "k"]]}))
    ops.append(("update_derived", {"name": "dv", "fn": "f_add"}))
    ops.append(("update_derived", {"name": "dv", "args": ["y", "k"]}))
    ops.append(("update_derived", {"name": "dp", "args": ["k", "x"]}))
    ops.append(("update_derived", {"name": "zz", "fn": "f_add"}))
    ops.append(("update_reaction", {"name": "v1", "fn": "f_add"}))
    ops.append(("update_reaction", {"name": "v1", "args": ["y", "k"]}))
    ops.append(("update_reaction", {"name": "v1", "stoich": {"x": -2, "y": 1}}))
    ops.append(("update_reaction", {"name": "v2", "stoich": {"y": "k"}}))
    ops.append(("update_reaction", {"name": "zz", "fn": "f_add"}))
    ops.append(("update_surrogate", {"name": "s", "stoich": {"sa": {"x": -2.0, "y": 1.0}}}))
    ops.append(("update_surrogate", {"name": "s", "outputs": ["sa", "o3"]}))
    ops.append(("update_surrogate", {"name": "s", "outputs": ["sa", "x"]}))
    ops.append(("update_surrogate", {"name": "s", "args": ["y"]}))
    ops.append(("update_surrogate", {"name": "s", "surrogate": "s_model2"}))
    ops.append(("update_surrogate", {"name": "zz", "args": ["y"]}))
    ops.append(("update_data", {"name": "D"}))
    ops.append(("update_data", {"name": "zz"}))
    ops.append(("scale_parameter", {"name": "k", "factor": 2.0}))
    ops.append(("scale_parameter", {"name": "zz", "factor": 2.0}))
    ops.append(("scale_parameters", {"parameters": {"k": 2.0, "p": 0.5}}))
    ops.append(("make_parameter_dynamic", {"name": "p"}))
    ops.append(("make_parameter_dynamic", {"name": "p", "initial_value": 1.75, "stoich": {"v1": 0.5, "v2": 0.25}}))
    ops.append(("make_parameter_dynamic", {"name": "p", "stoich": {"sa": 1.0}}))
    ops.append(("make_parameter_dynamic", {"name": "p", "stoich": {"nope": 1.0}}))
    ops.append(("make_parameter_dynamic", {"name": "zz"}))
    ops.append(("make_variable_static", {"name": "y"}))
    ops.append(("make_variable_static", {"name": "y", "value": 4.0}))
    ops.append(("make_variable_static", {"name": "zz"}))
    # zero is a value like any other
    ops.append(("make_variable_static", {"name": "y", "value": 0.0}))
    ops.append(("make_parameter_dynamic", {"name": "p", "initial_value": 0.0}))
    ops.append(("update_parameter", {"name": "k", "value": 0.0}))
    ops.append(("update_variable", {"name": "x", "value": 0}))
    ops.append(("update_parameters", {"parameters": {"k": 0.0, "p": 0}}))
    ops.append(("make_variable_static", {"name": "w"}))  # a variable whose start value is an initial assignment (base 0)
    # plural forms
    ops.append(("add_parameters", {"parameters": {"n1": 1.0, "n3": 2.0}}))
    ops.append(("add_variables", {"variables": {"n1": 1.0, "n3": 2.0}}))
    ops.append(("update_parameters", {"parameters": {"k": 2.0, "p": 1.0}}))
    ops.append(("update_variables", {"variables": {"x": 2.0, "y": 1.0}}))
    ops.append(("remove_parameters", {"names": ["p"]}))
    ops.append(("remove_variables", {"names": ["y"]}))
    # plural forms with one good and one bad entry: must change nothing
    ops.append(("add_parameters", {"parameters": {"n4": 1.0, "k": 2.0}}))
    ops.append(("add_variables", {"variables": {"n4": 1.0, "time": 2.0}}))
    # ... where the bad entry is a name that a component of ANOTHER kind holds (one name space)
    ops.append(("add_variables", {"variables": {"n5": 1.0, "k": 2.0}}))
    ops.append(("add_parameters", {"parameters": {"n5": 1.0, "x": 2.0}}))
    ops.append(("add_variables", {"variables": {"n5": 1.0, "v1": 2.0}}))
    ops.append(("add_parameters", {"parameters": {"n5": 1.0, "dp": 2.0}}))
    ops.append(("update_parameters", {"parameters": {"k": 3.0, "zz": 1.0}}))
    ops.append(("update_variables", {"variables": {"x": 3.0, "zz": 1.0}}))
    ops.append(("remove_parameters", {"names": ["k", "zz"]}))
    ops.append(("remove_variables", {"names": ["x", "zz"]}))
    ops.append(("scale_parameters", {"parameters": {"k": 3.0, "zz": 0.5}}))
    return ops


OPS = _ops()


def _val(v):
    from mxlpy import InitialAssignment

    if isinstance(v, list) and v and v[0] == IA:
        return InitialAssignment(fn=FNS[v[1]], args=list(v[2]))
    return v


def _budgeted_integrator(budget=5000):
    """The shipped integrator with a bound on the number of right-hand-side evaluations.

    Some edited models blow up in finite time before t=0.25; scipy then grinds on NaN steps without ever returning.
    That is not what C03 is about: the query counts as one that failed (deterministically, by evaluation count).
    """
    from mxlpy.integrators import Scipy

    class Budgeted(Scipy):
        def __post_init__(self):
            super().__post_init__()
            inner, n = self.rhs, [0]

            def rhs(t, y):
                n[0] += 1
                if n[0] > budget:
                    raise RuntimeError("evaluation budget of the harness used up")
                return inner(t, y)

            self.rhs = rhs

    return Budgeted


def apply_op(m, op):
    """Apply one operation to the real model. Returns None or raises what the library raises."""
    import pandas as pd
    from mxlpy.surrogates import qss

    name, a = op
    if name.startswith("Q"):
        try:
            vn = m.get_variable_names()
            st = {v: 0.7 + 0.4 * i for i, v in enumerate(vn)}
            if name == "Q":
                m.get_args()
            elif name == "Q_stoichiometries":
                m.get_stoichiometries()
            elif name == "Q_stoichiometries_state":
                m.get_stoichiometries(st, 2.0)
            elif name == "Q_right_hand_side":
                m.get_right_hand_side(st, 1.0)
            elif name == "Q_fluxes":
                m.get_fluxes(st, 1.0)
            elif name == "Q_call":
                m(1.0, [st[v] for v in vn])
            elif name == "Q_initial_conditions":
                m.get_initial_conditions()
            elif name == "Q_parameter_values":
                m.get_parameter_values()
            elif name == "Q_derived_names":
                m.get_derived_parameter_names()
                m.get_derived_variable_names()
            elif name == "Q_args_time_course":
                m.get_args_time_course(pd.DataFrame({v: [st[v], 2 * st[v]] for v in vn}, index=[0.5, 1.5]), include_readouts=True)
            elif name == "Q_stoichiometries_of_variable":
                for v in vn:
                    m.get_stoichiometries_of_variable(v, st, 1.0)
            elif name == "Q_simulate_and_read":
                # using the model: a short simulation whose result views are read (they evaluate the model)
                from mxlpy import Simulator

                res = Simulator(m, integrator=_budgeted_integrator()).simulate(0.25, steps=2).get_result().unwrap_or_err()
                res.variables  # noqa: B018
                res.fluxes  # noqa: B018
        except Exception:  # noqa: BLE001 - a query that fails is still a query
            pass
        return
    if name == "add_parameter":
        m.add_parameter(a["name"], _val(a["value"]))
    elif name == "add_variable":
        m.add_variable(a["name"], _val(a["value"]))
    elif name == "add_derived":
        m.add_derived(a["name"], FNS[a["fn"]], args=list(a["args"]))
    elif name == "add_reaction":
        m.add_reaction(a["name"], FNS[a["fn"]], args=list(a["args"]), stoichiometry=dict(a["stoich"]))
    elif name == "add_readout":
        m.add_readout(a["name"], FNS[a["fn"]], args=list(a["args"]))
    elif name == "add_surrogate":
        m.add_surrogate(
            a["name"],
            qss.Surrogate(model=s_model, args=["y"], outputs=list(a["outputs"]),
                          stoichiometries={k: dict(v) for k, v in a["stoich"].items()}),
        )
    elif name == "add_data":
        m.add_data(a["name"], pd.Series({"a": 4.0, "b": 0.5}))
    elif name in ("remove_parameter", "remove_variable", "remove_derived", "remove_reaction", "remove_readout",
                  "remove_surrogate", "remove_data"):
        getattr(m, name)(a["name"])
    elif name == "update_parameter":
        m.update_parameter(a["name"], _val(a["value"]))
    elif name == "update_variable":
        m.update_variable(a["name"], _val(a["value"]))
    elif name == "update_derived":
        m.update_derived(a["name"], FNS[a["fn"]] if "fn" in a else None, args=list(a["args"]) if "args" in a else None)
    elif name == "update_reaction":
        m.update_reaction(
            a["name"],
            FNS[a["fn"]] if "fn" in a else None,
            args=list(a["args"]) if "args" in a else None,
            stoichiometry=dict(a["stoich"]) if "stoich" in a else None,
        )
    elif name == "update_surrogate":
        kw = {}
        if "surrogate" in a:
            kw["surrogate"] = qss.Surrogate(model=FNS[a["surrogate"]], args=["x"], outputs=["sa", "sb"],
                                            stoichiometries={"sa": {"x": -1.0, "y": 1.0}})
        if "args" in a:
            kw["args"] = list(a["args"])
        if "outputs" in a:
            kw["outputs"] = list(a["outputs"])
        if "stoich" in a:
            kw["stoichiometries"] = {k: dict(v) for k, v in a["stoich"].items()}
        m.update_surrogate(a["name"], **kw)
    elif name == "update_data":
        m.update_data(a["name"], pd.Series({"a": 5.0, "b": 0.25}))
    elif name == "scale_parameter":
        m.scale_parameter(a["name"], a["factor"])
    elif name == "scale_parameters":
        m.scale_parameters(dict(a["parameters"]))
    elif name == "make_parameter_dynamic":
        m.make_parameter_dynamic(a["name"], a.get("initial_value"), dict(a["stoich"]) if "stoich" in a else None)
    elif name == "make_variable_static":
        m.make_variable_static(a["name"], a.get("value"))
    elif name == "add_parameters":
        m.add_parameters(dict(a["parameters"]))
    elif name == "add_variables":
        m.add_variables(dict(a["variables"]))
    elif name == "update_parameters":
        m.update_parameters(dict(a["parameters"]))
    elif name == "update_variables":
        m.update_variables(dict(a["variables"]))
    elif name == "remove_parameters":
        m.remove_parameters(list(a["names"]))
    elif name == "remove_variables":
        m.remove_variables(list(a["names"]))
    else:
        raise HarnessError(f"unknown op {name}")


# --------------------------------------------------------------------------------------
# canonical content / name space
# --------------------------------------------------------------------------------------


def _cv(v):
    from mxlpy.types import Derived, InitialAssignment

    if isinstance(v, (InitialAssignment, Derived)):
        return [type(v).__name__, v.fn.__name__, list(v.args)]
    return v


def _stoich(st):
    return [[k, _cv(v)] for k, v in st.items()]


def content(m):
    return {
        "ids": sorted(m._ids.items()),
        "variables": [[n, _cv(v.initial_value)] for n, v in m._variables.items()],
        "parameters": [[n, _cv(v.value)] for n, v in m._parameters.items()],
        "derived": [[n, v.fn.__name__, list(v.args)] for n, v in m._derived.items()],
        "reactions": [[n, v.fn.__name__, list(v.args), _stoich(v.stoichiometry)] for n, v in m._reactions.items()],
        "readouts": [[n, v.fn.__name__, list(v.args)] for n, v in m._readouts.items()],
        "surrogates": [
            [n, getattr(v, "model", None).__name__, list(v.args), list(v.outputs),
             [[k, _stoich(st)] for k, st in v.stoichiometries.items()]]
            for n, v in m._surrogates.items()
        ],
        "data": [[n, [float(x) for x in v.to_numpy()]] for n, v in m._data.items()],
    }


def _ceq(a, b):
    """Content equality that never raises (a defect may leave arrays or objects where numbers belong)."""
    import json

    def canon(x):
        return json.dumps(x, sort_keys=True, default=repr)

    try:
        return canon(a) == canon(b)
    except Exception:  # noqa: BLE001
        return repr(a) == repr(b)


def cache_digest(m):
    c = m._cache
    if c is None:
        return None
    return {
        "order": c.order,
        "var_names": c.var_names,
        "dyn_order": c.dyn_order,
        "base": c.base_parameter_values,
        "all": c.all_parameter_values,
        "stoich": c.stoich_by_cpds,
        "dyn": {k: {r: _cv(d) for r, d in v.items()} for k, v in c.dyn_stoich_by_cpds.items()},
        "ic": c.initial_conditions,
    }


def state_key(m):
    return sha12({"content": content(m), "cache": cache_digest(m)})


def expected_ids(m):
    ids = {}
    dup = []

    def put(n, ctx):
        if n in ids:
            dup.append(n)
        ids[n] = ctx

    for n in m._variables:
        put(n, "variable")
    for n in m._parameters:
        put(n, "parameter")
    for n in m._derived:
        put(n, "derived")
    for n in m._reactions:
        put(n, "reaction")
    for n in m._readouts:
        put(n, "readout")
    for n, s in m._surrogates.items():
        put(n, "surrogate")
        for o in s.outputs:
            put(o, "surrogate")
    for n in m._data:
        put(n, "data")
    return ids, dup


KIND_OF = {
    "parameter": "_parameters", "variable": "_variables", "derived": "_derived", "reaction": "_reactions",
    "readout": "_readouts", "surrogate": "_surrogates", "data": "_data",
}


def reference_acceptance(m, op):
    """'reject' | 'accept' | None (statement does not say) for op on the model *before* it is applied."""
    name, a = op
    ids, _ = expected_ids(m)
    if name.startswith("Q"):
        return "accept"
    if name.startswith("add_") and not name.endswith("s") or name in ("add_data",):
        new = [a["name"]] + (list(a["outputs"]) if name == "add_surrogate" else [])
        bad = any(n in ids or n == "time" for n in new) or len(set(new)) != len(new)
        return "reject" if bad else "accept"
    if name in ("add_parameters", "add_variables"):
        new = list(a.get("parameters") or a.get("variables"))
        return "reject" if any(n in ids or n == "time" for n in new) else "accept"
    for prefix in ("remove_", "update_"):
        if name.startswith(prefix):
            kind = name[len(prefix):]
            if kind.endswith("s") and kind != "surrogates" and kind[:-1] in KIND_OF:
                kind = kind[:-1]
                names = list(a.get("names") or a.get("parameters") or a.get("variables"))
            else:
                names = [a["name"]]
            cont = getattr(m, KIND_OF[kind])
            if any(n not in cont for n in names):
                return None  # unknown name: may raise or not, but nothing may change inconsistently
            if name == "update_surrogate" and ("outputs" in a or "surrogate" in a):
                own = set(m._surrogates[a["name"]].outputs)
                # a replacement surrogate object brings its own outputs (see apply_op) unless outputs= is given
                new_out = a["outputs"] if "outputs" in a else ["sa", "sb"]
                clash = any((o in ids and o not in own) or o == "time" for o in new_out)
                return "reject" if clash else "accept"
            return "accept"
    if name == "scale_parameter":
        return "accept" if a["name"] in m._parameters else None
    if name == "scale_parameters":
        return "accept" if all(n in m._parameters for n in a["parameters"]) else None
    if name == "make_parameter_dynamic":
        if a["name"] not in m._parameters:
            return None
        for r in a.get("stoich") or {}:
            ok = r in m._reactions or any(r in s.stoichiometries for s in m._surrogates.values())
            if not ok:
                return "reject"
        return "accept"
    if name == "make_variable_static":
        return "accept" if a["name"] in m._variables else None
    return None


# --------------------------------------------------------------------------------------
# observation and fresh rebuild
# --------------------------------------------------------------------------------------


def rebuild(m):
    """A fresh Model with the same content, through the public API only."""
    from mxlpy import Model

    f = Model()
    for n, v in m.get_raw_variables().items():
        f.add_variable(n, v.initial_value)
    for n, v in m.get_raw_parameters().items():
        f.add_parameter(n, v.value)
    for n, v in copy.deepcopy(m._data).items():
        f.add_data(n, v)
    for n, v in m.get_raw_derived().items():
        f.add_derived(n, v.fn, args=v.args)
    for n, v in m.get_raw_reactions().items():
        f.add_reaction(n, v.fn, args=v.args, stoichiometry=v.stoichiometry)
    for n, v in m.get_raw_readouts().items():
        f.add_readout(n, v.fn, args=v.args)
    for n, v in m.get_raw_surrogates().items():
        f.add_surrogate(n, v)
    return f


def _plain(x):
    import pandas as pd

    if isinstance(x, pd.Series):
        return {"index": [str(i) for i in x.index], "values": [float(v) for v in x.to_numpy()]}
    if isinstance(x, dict):
        return {"index": list(x), "values": [float(v) for v in x.values()]}
    return x


def observe(m):
    var_names = m.get_variable_names()
    state = {v: 0.3 * (i + 1) for i, v in enumerate(var_names)}
    qs = [
        ("get_args", lambda: m.get_args(include_readouts=True)),
        ("get_right_hand_side", lambda: m.get_right_hand_side()),
        ("get_fluxes", lambda: m.get_fluxes()),
        ("get_initial_conditions", lambda: m.get_initial_conditions()),
        ("get_parameter_values", lambda: m.get_parameter_values()),
        ("get_derived_parameter_names", lambda: sorted(m.get_derived_parameter_names())),
        ("get_derived_variable_names", lambda: sorted(m.get_derived_variable_names())),
        ("get_args@state", lambda: m.get_args(state, 1.5, include_readouts=True)),
        ("get_right_hand_side@state", lambda: m.get_right_hand_side(state, 1.5)),
        ("call@state", lambda: list(m(1.5, [state[v] for v in var_names]))),
        ("get_stoichiometries", lambda: m.get_stoichiometries().to_dict()),
    ]
    obs = {}
    for qn, q in qs:
        try:
            obs[qn] = _plain(q())
        except Exception as exc:  # noqa: BLE001
            obs[qn] = {"EXC": type(exc).__name__, "msg": str(exc)[:120]}
    return obs


def _same(a, b):
    if isinstance(a, dict) and isinstance(b, dict):
        if "EXC" in a or "EXC" in b:
            return a.get("EXC") == b.get("EXC")
        if set(a) != set(b):
            return False
        return all(_same(a[k], b[k]) for k in a)
    if isinstance(a, list) and isinstance(b, list):
        return len(a) == len(b) and all(_same(x, y) for x, y in zip(a, b, strict=True))
    if isinstance(a, float) and isinstance(b, float):
        if math.isnan(a) and math.isnan(b):
            return True
        return abs(a - b) <= 1e-12 + 1e-12 * max(abs(a), abs(b))
    return a == b


def _init_state(init, hist, expect_key=None):
    # init: 0 cold / 1 warm cache on base variant 0; 2 cold / 3 warm on base variant 1
    m = base_model(init // 2)
    if init % 2 == 1:
        m.get_args()
    for i in hist:
        try:
            apply_op(m, OPS[i])
        except HarnessError:
            raise
        except Exception:  # noqa: BLE001
            pass
    if expect_key is not None and state_key(m) != expect_key:
        raise HarnessError(f"replay of prefix {hist} from init {init} did not reproduce state {expect_key}")
    return m


def check(case):
    init, hist, opi = case["init"], case["hist"], case["op"]
    op = OPS[opi]
    m = _init_state(init, hist, case.get("key"))
    nontrivial = (not op[0].startswith("Q") or bool(hist)) and (bool(hist) or init % 2 == 1)
    before = content(m)
    expect = reference_acceptance(m, op)
    raised = None
    try:
        apply_op(m, op)
    except HarnessError:
        raise
    except Exception as exc:  # noqa: BLE001
        raised = exc
    after = content(m)
    key = state_key(m)
    extra_key = {"newkey": key}
    opname = op[0]
    hist_txt = f"init={'warm' if init % 2 else 'cold'}/base{init // 2} history={[OPS[i] for i in hist]} op={op}"

    def bad(cls, symptom, detail):
        o = outcome(False, cls, symptom=f"{symptom}:{opname}", nontrivial=nontrivial, detail=f"{detail} | {hist_txt}")
        o.update(extra_key)
        o["expanded"] = False
        return o

    # An edit that fails because the *model cannot be evaluated* (scale_parameter of an
    # assignment-defined parameter has to evaluate it) is not a rejection for a name reason: the
    # statement's "rejected (duplicate name, unknown name)" does not cover it, so rules 2 and 3a are
    # not applied; the resulting state is still checked by 3b and 1.
    from mxlpy.model import ArityMismatchError, CircularDependencyError, MissingDependenciesError

    eval_failure = isinstance(raised, (MissingDependenciesError, CircularDependencyError, ArityMismatchError))
    if eval_failure:
        expect = None
    # 2. a rejected edit changes nothing
    if raised is not None and not eval_failure and not _ceq(after, before):
        diff = [k for k in before if not _ceq(before[k], after[k])]
        return bad("rejected-edit-changed-model", "rejected-but-changed",
                   f"{type(raised).__name__} was raised but {diff} changed")
    # 2b. a query is not an edit: the model's content is what it was
    if opname.startswith("Q") and not _ceq(after, before):
        diff = [k for k in before if not _ceq(before[k], after[k])]
        return bad("query-changed-model", "query-changed-content", f"a query changed {diff}: before {str([before[k] for k in diff])[:300]} after {str([after[k] for k in diff])[:300]}")
    # 2c. an edit reaches only the reactions it names (or, when a variable goes, the reactions that list it)
    rb = {r[0]: r for r in before["reactions"]}
    ra = {r[0]: r for r in after["reactions"]}
    changed = {n for n in set(rb) | set(ra) if not _ceq(rb.get(n), ra.get(n))}
    a_ = op[1]
    if opname in ("add_reaction", "update_reaction", "remove_reaction"):
        allowed = {a_.get("name")}
    elif opname == "make_parameter_dynamic":
        allowed = set(a_.get("stoich") or {})
    elif opname in ("make_variable_static", "remove_variable"):
        gone = a_.get("name")
        allowed = {n for n, r in rb.items() if any(k == gone for k, _v in r[3])}
    elif opname in ("remove_variables",):
        gone = set(a_.get("names") or a_.get("variables") or [])
        allowed = {n for n, r in rb.items() if any(k in gone for k, _v in r[3])}
    else:
        allowed = set() if opname.startswith(("Q", "add_", "update_", "scale_", "remove_", "make_")) else changed
    if opname in ("add_reactions", "update_reactions", "remove_reactions") or "names" in a_ or "reactions" in a_:
        allowed = changed  # plural forms name several reactions: covered by the fresh-model differential
    if not changed <= allowed:
        return bad("edit-leaked", "edit-changed-other-reactions", f"reactions {sorted(changed - allowed)} changed although the operation names {sorted(allowed)}: "
                   f"{[(rb.get(n), ra.get(n)) for n in sorted(changed - allowed)][:2]}")
    # 2d. a conversion keeps the value: the new variable starts at the given value or at the parameter's value, the
    #     new parameter holds the given value or what the variable started from (also an initial assignment)
    if raised is None and opname == "make_parameter_dynamic":
        old = dict((n_, v_) for n_, v_ in before["parameters"]).get(a_["name"])
        new_v = dict((n_, v_) for n_, v_ in after["variables"]).get(a_["name"])
        want = a_.get("initial_value", old) if a_.get("initial_value") is not None else old
        if not _ceq(new_v, want):
            return bad("conversion-changed-value", "conversion-changed-value", f"variable {a_['name']} starts at {new_v}, expected {want}")
    if raised is None and opname == "make_variable_static":
        old = dict((n_, v_) for n_, v_ in before["variables"]).get(a_["name"])
        new_p = dict((n_, v_) for n_, v_ in after["parameters"]).get(a_["name"])
        want = a_.get("value", old) if a_.get("value") is not None else old
        if not _ceq(new_p, want):
            return bad("conversion-changed-value", "conversion-changed-value", f"parameter {a_['name']} is {new_p}, expected {want} (it was the variable's start value {old})")
    # 2e. an update stores the number it is given (zero is a number), a scaling multiplies the stored number
    if raised is None and opname in ("update_parameter", "update_variable", "update_parameters", "update_variables", "scale_parameter", "scale_parameters"):
        kind = "variables" if "variable" in opname else "parameters"
        old_vals, new_vals = dict((n_, v_) for n_, v_ in before[kind]), dict((n_, v_) for n_, v_ in after[kind])
        if opname in ("update_parameter", "update_variable"):
            given = {a_["name"]: a_["value"]}
        elif opname == "scale_parameter":
            given = {a_["name"]: old_vals.get(a_["name"]) * a_["factor"]} if isinstance(old_vals.get(a_["name"]), (int, float)) else {}
        elif opname == "scale_parameters":
            given = {n_: old_vals[n_] * f_ for n_, f_ in a_["parameters"].items() if isinstance(old_vals.get(n_), (int, float))}
        else:
            given = dict(a_[kind])
        for n_, want in given.items():
            if isinstance(want, (int, float)) and not _ceq(new_vals.get(n_), float(want)) and not _ceq(new_vals.get(n_), want):
                return bad("update-not-stored", "update-not-stored", f"{kind[:-1]} {n_} holds {new_vals.get(n_)} after the update, expected {want}")
    # 3a. acceptance
    if expect == "reject" and raised is None:
        return bad("bad-edit-accepted", "name-clash-accepted", "edit must be rejected (name in use / time / unknown target) but was accepted")
    if expect == "accept" and raised is not None:
        return bad("good-edit-rejected", "good-edit-rejected", f"edit must be accepted but raised {type(raised).__name__}: {raised}")
    # 3b. ids = names recomputed from the containers
    ids, dup = expected_ids(m)
    if dup:
        return bad("name-space-violated", "duplicate-name", f"name(s) {dup} used by two components")
    if m.ids != ids:
        d = {k: (m.ids.get(k), ids.get(k)) for k in set(ids) | set(m.ids) if m.ids.get(k) != ids.get(k)}
        return bad("name-space-violated", "ids-mismatch", f"ids differ from containers (ids, containers): {d}")
    # 1. fresh-model differential (on a deep copy so that observation does not perturb the explored state)
    try:
        fresh = rebuild(m)
    except Exception as exc:  # noqa: BLE001
        return bad("content-not-constructible", "content-not-constructible", f"{type(exc).__name__}: {exc}")
    o_edit = observe(copy.deepcopy(m))
    o_fresh = observe(fresh)
    for qn in o_fresh:
        if not _same(o_edit[qn], o_fresh[qn]):
            return bad("differs-from-fresh", f"stale:{qn}", f"{qn}: edited model {o_edit[qn]} fresh model {o_fresh[qn]}")
    o = outcome(True, "rejected-clean" if raised is not None else "applied-equal-fresh", nontrivial=nontrivial)
    o.update(extra_key)
    o["expanded"] = True
    return o


def replay(case):
    c = dict(case)
    return check(c)


# known-finding predicates are keyed by the operation (call site)
def _op_is(*names):
    return lambda case: OPS[case["op"]][0] in names


def describe(case):
    """Readable form of a transition for the evidence file."""
    return {"initial_state": f"{'warm' if case['init'] % 2 else 'cold'} cache, base model {case['init'] // 2}",
            "history": [list(OPS[i]) for i in case["hist"]], "operation": list(OPS[case["op"]])}


PREDICATES = {}


def run(ctx):
    # thorough: depth 3 (about 15 minutes); VERIF_C03_DEPTH=4 goes one level deeper (about 75 minutes on 16 cores)
    depth = 2 if ctx.tier == "quick" else int(os.environ.get("VERIF_C03_DEPTH", "3"))
    seen = {}
    frontier = []
    for init in (0, 1, 2, 3):
        m = _init_state(init, [])
        k = state_key(m)
        seen[k] = (init, [])
        frontier.append((init, [], k))
    transitions = 0
    for d in range(1, depth + 1):
        cases = [
            {"init": init, "hist": hist, "op": oi, "key": k}
            for (init, hist, k) in frontier
            for oi in range(len(OPS))
        ]
        res = ctx.evaluate(cases, keep=True, timeout=60)
        transitions += len(cases)
        nxt = []
        for c, r in zip(cases, res, strict=True):
            nk = r.get("newkey")
            if nk is None or not r.get("expanded"):
                continue
            if nk not in seen:
                seen[nk] = (c["init"], c["hist"] + [c["op"]])
                nxt.append((c["init"], c["hist"] + [c["op"]], nk))
        ctx.note(f"depth {d}: {len(cases)} transitions, {len(nxt)} new states, {len(seen)} states total")
        frontier = nxt
    # long walks: the whole alphabet in order (and in reverse), started at several rotations, checked after EVERY
    # operation - histories of 117 operations, far beyond the BFS depth
    walks = 0
    walk_cases = []
    n_ops = len(OPS)
    for init in ((1, 2) if ctx.tier == "quick" else (0, 1, 2, 3)):
        for direction in (1, -1):
            for r in ((0, n_ops // 2) if ctx.tier == "quick" else (0, n_ops // 4, n_ops // 2, 3 * n_ops // 4)):
                seq = list(range(n_ops))[::direction]
                seq = seq[r:] + seq[:r]
                walks += 1
                walk_cases.extend({"init": init, "hist": seq[:j], "op": seq[j], "key": None} for j in range(n_ops))
    ctx.evaluate(walk_cases, timeout=120)
    transitions += len(walk_cases)
    ctx.note(f"{walks} long walks through the whole alphabet, checked after every one of their {n_ops} operations")
    ctx.coverage_extra.update(
        {
            "states": len(seen),
            "long_walks": walks,
            "transitions": transitions,
            "traces_validated_against_impl": transitions,
            "depth": depth,
            "alphabet": len(OPS),
            "unexpanded_frontier": len(frontier),
        }
    )
