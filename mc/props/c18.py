"""C18 - control coefficients equal analytic sensitivities; the model is left untouched.

Power-law networks x kinetic orders x state / parameter grid x scaled or unscaled: elasticities are
compared with the exact partial derivatives (scaled elasticity of a power law = its kinetic order),
response coefficients with the analytic steady-state sensitivities, sequential with parallel
execution, and the model's parameter and initial values are snapshotted before and after every routine.
"""

from __future__ import annotations

import itertools as it
import math

from mc.core import outcome

ID = "C18"
LEVEL = "exploration"
TECHNIQUE = "bounded-exhaustive enumeration of power-law networks x kinetic orders x state/parameter grid x scaling x execution mode against analytic sensitivities, with before/after snapshots"
LEVEL_TEXT = (
    "Chain and branch networks with power-law rates k*x^n, n in {0.5, 1, 2}, over a 3x3 state grid and a parameter grid: "
    "variable and parameter elasticities (scaled and unscaled) must equal the exact partial derivatives to 1e-6; response "
    "coefficients (scaled and unscaled, with and without supplied start values, sequential and parallel) must equal the "
    "sensitivities of the analytic steady state to 2e-2 (they are finite differences of numerically found steady "
    "states) and be identical between execution modes; get_parameter_values() and get_initial_conditions() are compared "
    "before and after every routine. Monte-Carlo wrappers (mc.variable_elasticities / parameter_elasticities / "
    "response_coefficients): sample tables with a parameter column, an initial-value column, both, or a parameter that "
    "an initial assignment reads x default or supplied state x row labels in and out of order x 1-3 workers; every "
    "row's block must equal the analytic coefficients at that row's parameters and state, under that row's label."
    " Added: a closed pair whose steady state depends on the start values in force, a parameter that acts "
    "through a computed stoichiometric coefficient only, mappings with reversed key order. "
    ' Also: a reversible step exactly at equilibrium (zero flux) and away from it.'
    ' Also: parameter elasticities with respect to the kinetic orders, negative orders.'
)
LEVEL_NOTE = "trusted: the analytic steady state of the power-law chain/branch; finite-difference tolerance constants as stated"
RULE = (
    "case = (routine, network, kinetic orders, state or parameter setting, scaling, execution mode, start values); "
    "product enumerated completely. Non-trivial = every case; distinct = distinct tuples."
)
ASSUMPTIONS = ["power-law kinetics with positive states and parameters"]

ORDERS = [0.5, 1.0, 2.0]
GRID = [0.5, 1.0, 2.0]


def cin(c):
    return c


def _twice(k):
    return 2.0 * k


def _ident(n):
    return n


def plaw(s, k, n):
    return k * s**n


def plaw1(s, k):
    return k * s


def build(net, n1, n2, pars, ia=False):
    from mxlpy import InitialAssignment, Model

    m = Model()
    c, k1, k2 = pars
    if net == "closed":
        # closed pair x <-> y (linear): the steady state depends on the total x + y, i.e. on the start values
        m.add_variables({"x": 0.75, "y": 0.25})
        m.add_parameters({"c": c, "k1": k1, "k2": k2})
        m.add_reaction("v1", plaw1, args=["x", "k1"], stoichiometry={"x": -1, "y": 1})
        m.add_reaction("v2", plaw1, args=["y", "k2"], stoichiometry={"y": -1, "x": 1})
        return m
    if net == "yield":
        # a parameter (the yield n) that acts through a computed stoichiometric coefficient only
        from mxlpy import Derived

        m.add_variables({"x": 1.0, "y": 1.0})
        m.add_parameters({"c": c, "k1": k1, "k2": k2, "n": 1.5})
        m.add_reaction("v0", cin, args=["c"], stoichiometry={"x": 1})
        m.add_reaction("v1", plaw1, args=["x", "k1"], stoichiometry={"x": -1, "y": Derived(fn=_ident, args=["n"])})
        m.add_reaction("v2", plaw1, args=["y", "k2"], stoichiometry={"y": -1})
        return m
    if net == "chain":
        # with ia: x starts at 2*k1 (an initial assignment over a parameter that is also scanned)
        m.add_variables({"x": InitialAssignment(fn=_twice, args=["k1"]) if ia else 1.0, "y": 1.0})
        m.add_parameters({"c": c, "k1": k1, "k2": k2, "n1": n1, "n2": n2})
        m.add_reaction("v0", cin, args=["c"], stoichiometry={"x": 1})
        m.add_reaction("v1", plaw, args=["x", "k1", "n1"], stoichiometry={"x": -1, "y": 1})
        m.add_reaction("v2", plaw, args=["y", "k2", "n2"], stoichiometry={"y": -1})
    else:  # branch: x -> y (v1), x -> z (v1b, linear), y ->, z ->
        m.add_variables({"x": 1.0, "y": 1.0, "z": 1.0})
        m.add_parameters({"c": c, "k1": k1, "k2": k2, "n1": n1, "n2": n2, "kb": 0.75})
        m.add_reaction("v0", cin, args=["c"], stoichiometry={"x": 1})
        m.add_reaction("v1", plaw, args=["x", "k1", "n1"], stoichiometry={"x": -1, "y": 1})
        m.add_reaction("v1b", plaw, args=["x", "kb", "n1"], stoichiometry={"x": -1, "z": 1})
        m.add_reaction("v2", plaw, args=["y", "k2", "n2"], stoichiometry={"y": -1})
        m.add_reaction("v3", plaw, args=["z", "k2", "n2"], stoichiometry={"z": -1})
    return m


def generate(tier):
    cases = []
    nets = ["chain", "branch"]
    par_grid = [(1.0, 1.0, 1.0), (2.0, 0.5, 1.0), (0.5, 2.0, 2.0)] if tier == "quick" else list(it.product(GRID, repeat=3))
    # elasticities need no steady state: negative kinetic orders (inhibition) are parameters with a negative VALUE
    for net, n1, n2 in it.product(nets, [*ORDERS, -0.8], [*ORDERS, -1.5]):
        for state in it.product(GRID, repeat=2):
            for pars in par_grid[:2] if tier == "quick" else par_grid[::4]:
                for norm in (True, False):
                    cases.append({"routine": "variable_elasticities", "net": net, "n1": n1, "n2": n2, "state": list(state), "pars": list(pars), "normalized": norm})
                    cases.append({"routine": "parameter_elasticities", "net": net, "n1": n1, "n2": n2, "state": list(state), "pars": list(pars), "normalized": norm})
    # elasticities at the model's own initial state (no `variables=`), incl. a start value defined by an
    # initial assignment over a scanned parameter: the state is fixed, only the parameter is displaced
    for n1, n2, pars, norm, ia in it.product(ORDERS, ORDERS, par_grid[:2] if tier == "quick" else par_grid[::4], (True, False), (False, True)):
        for routine in ("variable_elasticities", "parameter_elasticities"):
            cases.append({"routine": routine, "net": "chain", "n1": n1, "n2": n2, "state": None, "pars": list(pars), "normalized": norm, "ia": ia})
    rc_orders = [(1.0, 1.0), (2.0, 0.5), (0.5, 2.0)] if tier == "quick" else list(it.product(ORDERS, ORDERS))
    rc_pars = par_grid[:2] if tier == "quick" else par_grid[::3]
    for net, (n1, n2), pars, norm, start in it.product(nets, rc_orders, rc_pars, (True, False), ("default", "supplied")):
        for mode in ("sequential", "parallel"):
            if mode == "parallel" and tier == "quick" and not (norm and start == "default"):
                continue
            cases.append({"routine": "response_coefficients", "net": net, "n1": n1, "n2": n2, "pars": list(pars), "normalized": norm, "start": start, "mode": mode})
    for pars, norm, mode in it.product(rc_pars, (True, False), ("sequential", "parallel")):
        if mode == "parallel" and tier == "quick" and not norm:
            continue
        cases.append({"routine": "response_coefficients", "net": "yield", "n1": 1.0, "n2": 1.0, "pars": list(pars), "normalized": norm, "start": "default", "mode": mode})
    # a reversible step at equilibrium (zero flux) and away from it, unscaled
    for routine, (k1, k2), (x, y) in it.product(("variable_elasticities", "parameter_elasticities", "mc.variable_elasticities"), ((2.0, 4.0), (1.0, 1.0), (0.5, 2.0)),
                                                ((1.0, 0.5), (2.0, 1.0), (1.0, 1.0), (4.0, 1.0), (0.5, 2.0))):
        cases.append({"routine": routine, "net": "reversible", "pars": [k1, k2], "state": [x, y], "normalized": False,
                      **({"mode": "parallel"} if routine.startswith("mc.") else {})})
    # a closed pair: the steady state depends on the start values in force (the model's own or the supplied ones)
    for pars, norm, start, mode in it.product(rc_pars, (True, False), ("default", "supplied"), ("sequential", "parallel")):
        if mode == "parallel" and tier == "quick" and not norm:
            continue
        cases.append({"routine": "response_coefficients", "net": "closed", "n1": 1.0, "n2": 1.0, "pars": list(pars), "normalized": norm, "start": start, "mode": mode})
    # Monte-Carlo wrappers: one block per row of the sample table, each at that row's parameters and start values
    for rt, (n1, n2), norm, table, state in it.product(("mc.variable_elasticities", "mc.parameter_elasticities", "mc.response_coefficients"),
                                                       rc_orders, (True, False), ("par", "init", "both", "ia"), (None, "supplied")):
        if rt == "mc.parameter_elasticities" and state is None:
            continue  # its signature requires the state
        if rt == "mc.response_coefficients" and tier == "quick" and (n1, n2) != rc_orders[1]:
            continue
        for labels, workers in (("range", 1), ("shuffled", 2)) if tier == "quick" else it.product(MC_LABELS, (1, 2, 3)):
            cases.append({"routine": rt, "n1": n1, "n2": n2, "normalized": norm, "table": table, "state": state, "labels": labels, "workers": workers, "mode": "parallel"})
    return cases


MC_ROWS = {"k1": [1.0, 2.0, 0.5], "x": [0.5, 2.0, 1.5]}
MC_LABELS = {"range": [0, 1, 2], "shuffled": [2, 0, 1]}


def check_mc(case):
    """Monte-Carlo wrappers: every row's block equals the analytic coefficients of a model with that row's values."""
    import pandas as pd
    from mxlpy import mc

    n1, n2, norm = case["n1"], case["n2"], case["normalized"]
    c, k1_0, k2 = 2.0, 1.0, 0.5
    ia = case["table"] == "ia"
    m = build("chain", n1, n2, [c, k1_0, k2], ia=ia)
    cols = {"par": ["k1"], "init": ["x"], "both": ["x", "k1"], "ia": ["k1"]}[case["table"]]
    df = pd.DataFrame({col: MC_ROWS[col] for col in cols}, index=MC_LABELS[case["labels"]])
    supplied = {"y": 1.25, "x": 0.75} if case["state"] == "supplied" else None
    txt = f"{case}"
    before = snapshot(m)
    rt = case["routine"]
    try:
        kw = {"mc_to_scan": df, "normalized": norm, "max_workers": case["workers"]}
        if rt == "mc.variable_elasticities":
            got = mc.variable_elasticities(m, variables=supplied, **kw)
        elif rt == "mc.parameter_elasticities":
            got = mc.parameter_elasticities(m, to_scan=["c", "k1", "k2"], variables=supplied, **kw)
        else:
            res = mc.response_coefficients(m, to_scan=["c", "k1", "k2"], variables=supplied, disable_tqdm=True, **kw)
    except Exception as exc:  # noqa: BLE001
        return outcome(False, "raised", symptom=f"raised:{type(exc).__name__}", detail=f"{type(exc).__name__}: {exc} | {txt}")
    for pos, label in enumerate(df.index):
        k1 = float(df["k1"].iloc[pos]) if "k1" in df else k1_0
        x0 = 2.0 * k1 if ia else (float(df["x"].iloc[pos]) if "x" in df else 1.0)
        st = dict(supplied) if supplied is not None else {"x": x0, "y": 1.0}
        x, y = st["x"], st["y"]
        rates = {"v0": c, "v1": k1 * x**n1, "v2": k2 * y**n2}
        try:
            if rt == "mc.variable_elasticities":
                exp = {"v1": {"x": n1 * rates["v1"] / x}, "v2": {"y": n2 * rates["v2"] / y}}
                for r in rates:
                    for v in ("x", "y"):
                        e = exp.get(r, {}).get(v, 0.0)
                        if norm:
                            e = e * st[v] / rates[r]
                        g = float(got.loc[(label, r), v])
                        if not _close(g, e, 1e-6):
                            return outcome(False, "wrong-elasticity", symptom="wrong-variable-elasticity:mc", detail=f"row {label!r}: d{r}/d{v} = {g} expected {e} | {txt}")
            elif rt == "mc.parameter_elasticities":
                pv = {"c": c, "k1": k1, "k2": k2}
                exp = {"v0": {"c": 1.0}, "v1": {"k1": x**n1}, "v2": {"k2": y**n2}}
                for r in rates:
                    for p_ in pv:
                        e = exp.get(r, {}).get(p_, 0.0)
                        if norm:
                            e = e * pv[p_] / rates[r]
                        g = float(got.loc[(label, r), p_])
                        if not _close(g, e, 1e-6):
                            return outcome(False, "wrong-elasticity", symptom="wrong-parameter-elasticity:mc", detail=f"row {label!r}: d{r}/d{p_} = {g} expected {e} | {txt}")
            else:
                xs = (c / k1) ** (1 / n1)
                ys = (c / k2) ** (1 / n2)
                dx = {"c": xs / (n1 * c), "k1": -xs / (n1 * k1), "k2": 0.0}
                dy = {"c": ys / (n2 * c), "k1": 0.0, "k2": -ys / (n2 * k2)}
                pv = {"c": c, "k1": k1, "k2": k2}
                for table, exp_t, what in ((res.variables, {"x": (xs, dx), "y": (ys, dy)}, "concentration"),
                                           (res.fluxes, {r: (c, {"c": 1.0, "k1": 0.0, "k2": 0.0}) for r in ("v0", "v1", "v2")}, "flux")):
                    for name, (val, d) in exp_t.items():
                        for p_ in pv:
                            e = d[p_] * (pv[p_] / val if norm else 1.0)
                            g = float(table.loc[(label, name), p_])
                            if not _close(g, e, 2e-2):
                                return outcome(False, "wrong-response", symptom=f"wrong-{what}-response-coefficient:mc", detail=f"row {label!r}: d{name}/d{p_} = {g} expected {e} | {txt}")
        except KeyError as exc:
            return outcome(False, "misaligned", symptom="row-label-missing:mc", detail=f"row {label!r} not in the result ({exc}) | {txt}")
    after = snapshot(m)
    if after != before:
        diff = [(i, a, b) for i, (a, b) in enumerate(zip(before, after, strict=True)) if a != b]
        what = {0: "parameter values", 1: "initial conditions", 2: "declared initial values"}[diff[0][0]]
        return outcome(False, "model-changed", symptom=f"model-changed:{what.replace(' ', '-')}:mc", detail=f"{what} before {diff[0][1]} after {diff[0][2]} | {txt}")
    return outcome(True, "rows-equal-and-untouched")


def _close(a, b, tol):
    if isinstance(a, float) and math.isnan(a) and isinstance(b, float) and math.isnan(b):
        return True
    return abs(a - b) <= tol + tol * max(abs(a), abs(b))


def snapshot(m):
    return ({k: float(v) for k, v in m.get_parameter_values().items()}, {k: float(v) for k, v in m.get_initial_conditions().items()},
            {k: (float(v.initial_value) if isinstance(v.initial_value, (int, float)) else repr(v.initial_value.args)) for k, v in m.get_raw_variables().items()})


def rev_rate(x, y, k1, k2):
    return k1 * x - k2 * y


def check_reversible(case):
    """A reversible step at and away from equilibrium: at equilibrium its flux is exactly zero, the unscaled
    elasticities are still the finite partial derivatives k1 and -k2."""
    from mxlpy import Model, mc, mca

    k1, k2 = case["pars"]
    x, y = case["state"]
    m = Model()
    m.add_variables({"x": 1.0, "y": 1.0}).add_parameters({"k1": k1, "k2": k2, "c": 1.0})
    m.add_reaction("v0", cin, args=["c"], stoichiometry={"x": 1})
    m.add_reaction("viso", rev_rate, args=["x", "y", "k1", "k2"], stoichiometry={"x": -1, "y": 1})
    before = snapshot(m)
    txt = f"{case}"
    st = {"x": x, "y": y}
    try:
        if case["routine"] == "variable_elasticities":
            got = mca.variable_elasticities(m, variables=st, normalized=False)
            exp = {("viso", "x"): k1, ("viso", "y"): -k2, ("v0", "x"): 0.0, ("v0", "y"): 0.0}
        elif case["routine"] == "mc.variable_elasticities":
            import pandas as pd

            got_all = mc.variable_elasticities(m, mc_to_scan=pd.DataFrame({"c": [1.0, 2.0]}), variables=st, normalized=False, max_workers=1)
            got = got_all.loc[1]
            exp = {("viso", "x"): k1, ("viso", "y"): -k2, ("v0", "x"): 0.0, ("v0", "y"): 0.0}
        else:
            got = mca.parameter_elasticities(m, to_scan=["k1", "k2", "c"], variables=st, normalized=False)
            exp = {("viso", "k1"): x, ("viso", "k2"): -y, ("viso", "c"): 0.0, ("v0", "c"): 1.0, ("v0", "k1"): 0.0, ("v0", "k2"): 0.0}
    except Exception as exc:  # noqa: BLE001
        return outcome(False, "raised", symptom=f"raised:{type(exc).__name__}", detail=f"{type(exc).__name__}: {exc} | {txt}")
    for (r, col), e in exp.items():
        g = float(got.loc[r, col])
        if not _close(g, e, 1e-6):
            return outcome(False, "wrong-elasticity", symptom="wrong-unscaled-elasticity:zero-flux" if abs(k1 * x - k2 * y) < 1e-12 else "wrong-unscaled-elasticity",
                           detail=f"d{r}/d{col} = {g} expected {e} (net flux of viso at this state: {k1 * x - k2 * y}) | {txt}")
    if snapshot(m) != before:
        return outcome(False, "model-changed", symptom="model-changed:reversible", detail=txt)
    return outcome(True, "equal-and-untouched")


def check(case):
    import warnings

    from mxlpy import mca

    warnings.simplefilter("ignore")
    if case.get("net") == "reversible":
        return check_reversible(case)
    if case["routine"].startswith("mc."):
        return check_mc(case)
    m = build(case["net"], case["n1"], case["n2"], case["pars"], ia=bool(case.get("ia")))
    c, k1, k2 = case["pars"]
    n1, n2 = case["n1"], case["n2"]
    txt = f"{case}"
    before = snapshot(m)
    rt = case["routine"]
    norm = case["normalized"]
    try:
        if rt in ("variable_elasticities", "parameter_elasticities"):
            names = m.get_variable_names()
            if case["state"] is None:
                st = {"x": 2.0 * k1 if case.get("ia") else 1.0, "y": 1.0}  # the model's initial state
                kw_state = {}
            else:
                st = dict(zip(names, (case["state"] + [1.5])[: len(names)], strict=True))
                # a mapping by name: its key order is free (reversed for the non-normalised half of the cases)
                kw_state = {"variables": st if norm else dict(reversed(list(st.items())))}
            x, y = st["x"], st["y"]
            kb = 0.75
            rates = {"v0": c, "v1": k1 * x**n1, "v2": k2 * y**n2}
            if case["net"] == "branch":
                z = st["z"]
                rates.update({"v1b": kb * x**n1, "v3": k2 * z**n2})
            if rt == "variable_elasticities":
                got = mca.variable_elasticities(m, normalized=norm, **kw_state)
                exp = {"v0": {}, "v1": {"x": n1 * rates["v1"] / x}, "v2": {"y": n2 * rates["v2"] / y}}
                if case["net"] == "branch":
                    exp["v1b"] = {"x": n1 * rates["v1b"] / x}
                    exp["v3"] = {"z": n2 * rates["v3"] / z}
                for r in rates:
                    for v in names:
                        e = exp.get(r, {}).get(v, 0.0)
                        if norm:
                            e = e * st[v] / rates[r]
                        g = float(got.loc[r, v])
                        if not _close(g, e, 1e-6):
                            return outcome(False, "wrong-elasticity", symptom="wrong-variable-elasticity", detail=f"d{r}/d{v}: {g} expected {e} | {txt}")
            else:
                to_scan = ["c", "k1", "k2", "n1", "n2"] + (["kb"] if case["net"] == "branch" else [])
                if not norm:
                    to_scan = to_scan[::-1]
                got = mca.parameter_elasticities(m, to_scan=to_scan, normalized=norm, **kw_state)
                pv = {"c": c, "k1": k1, "k2": k2, "kb": kb, "n1": n1, "n2": n2}
                exp = {"v0": {"c": 1.0}, "v1": {"k1": x**n1, "n1": rates["v1"] * math.log(x)}, "v2": {"k2": y**n2, "n2": rates["v2"] * math.log(y)}}
                if case["net"] == "branch":
                    exp["v1b"] = {"kb": x**n1, "n1": rates["v1b"] * math.log(x)}
                    exp["v3"] = {"k2": st["z"] ** n2, "n2": rates["v3"] * math.log(st["z"])}
                for r in rates:
                    for p in to_scan:
                        e = exp.get(r, {}).get(p, 0.0)
                        if norm:
                            e = e * pv[p] / rates[r]
                        g = float(got.loc[r, p])
                        if not _close(g, e, 1e-6):
                            return outcome(False, "wrong-elasticity", symptom="wrong-parameter-elasticity", detail=f"d{r}/d{p}: {g} expected {e} | {txt}")
        else:
            start = None
            names = m.get_variable_names()
            if case["start"] == "supplied":
                start = dict.fromkeys(names, 3.0)
            to_scan = {"closed": ["k1", "k2"], "yield": ["c", "k1", "k2", "n"]}.get(case["net"], ["c", "k1", "k2"])
            got = mca.response_coefficients(m, to_scan=to_scan, variables=start, normalized=norm, parallel=case["mode"] == "parallel", max_workers=2, disable_tqdm=True)
            if case["net"] == "yield":
                n_ = 1.5
                xs, ys = c / k1, n_ * c / k2
                dx = {"c": 1 / k1, "k1": -c / k1**2, "k2": 0.0, "n": 0.0}
                dy = {"c": n_ / k2, "k1": 0.0, "k2": -n_ * c / k2**2, "n": c / k2}
                expv = {"x": (xs, dx), "y": (ys, dy)}
                expf = {"v0": (c, {"c": 1.0, "k1": 0.0, "k2": 0.0, "n": 0.0}), "v1": (c, {"c": 1.0, "k1": 0.0, "k2": 0.0, "n": 0.0}),
                        "v2": (n_ * c, {"c": n_, "k1": 0.0, "k2": 0.0, "n": c})}
            elif case["net"] == "closed":
                tot = 6.0 if start is not None else 1.0  # the total is set by the start values in force
                s_ = k1 + k2
                xs, ys = tot * k2 / s_, tot * k1 / s_
                dx = {"k1": -tot * k2 / s_**2, "k2": tot * k1 / s_**2}
                dy = {"k1": tot * k2 / s_**2, "k2": -tot * k1 / s_**2}
                j = tot * k1 * k2 / s_
                dj = {"k1": tot * k2 * k2 / s_**2, "k2": tot * k1 * k1 / s_**2}
                expv = {"x": (xs, dx), "y": (ys, dy)}
                expf = {"v1": (j, dj), "v2": (j, dj)}
            elif case["net"] == "chain":
                xs = (c / k1) ** (1 / n1)
                ys = (c / k2) ** (1 / n2)
                dx = {"c": xs / (n1 * c), "k1": -xs / (n1 * k1), "k2": 0.0}
                dy = {"c": ys / (n2 * c), "k1": 0.0, "k2": -ys / (n2 * k2)}
                expv = {"x": (xs, dx), "y": (ys, dy)}
                expf = {r: (c, {"c": 1.0, "k1": 0.0, "k2": 0.0}) for r in ("v0", "v1", "v2")}
            else:
                kb = 0.75
                xs = (c / (k1 + kb)) ** (1 / n1)
                j1 = k1 * xs**n1
                jb = kb * xs**n1
                ys = (j1 / k2) ** (1 / n2)
                zs = (jb / k2) ** (1 / n2)
                dxs = {"c": xs / (n1 * c), "k1": -xs / (n1 * (k1 + kb)), "k2": 0.0}
                # fluxes: j1 = c*k1/(k1+kb), jb = c*kb/(k1+kb)
                dj1 = {"c": k1 / (k1 + kb), "k1": c * kb / (k1 + kb) ** 2, "k2": 0.0}
                djb = {"c": kb / (k1 + kb), "k1": -c * kb / (k1 + kb) ** 2, "k2": 0.0}
                dys = {p: ys / (n2 * j1) * dj1[p] - (ys / (n2 * k2) if p == "k2" else 0.0) for p in to_scan}
                dzs = {p: zs / (n2 * jb) * djb[p] - (zs / (n2 * k2) if p == "k2" else 0.0) for p in to_scan}
                expv = {"x": (xs, dxs), "y": (ys, dys), "z": (zs, dzs)}
                expf = {"v0": (c, {"c": 1.0, "k1": 0.0, "k2": 0.0}), "v1": (j1, dj1), "v1b": (jb, djb), "v2": (j1, dj1), "v3": (jb, djb)}
            pv = {"c": c, "k1": k1, "k2": k2, "n": 1.5}
            for table, exp_t, what in ((got.variables, expv, "concentration"), (got.fluxes, expf, "flux")):
                for name, (val, d) in exp_t.items():
                    for p in to_scan:
                        e = d[p] * (pv[p] / val if norm else 1.0)
                        g = float(table.loc[name, p])
                        if not _close(g, e, 2e-2):
                            return outcome(False, "wrong-response", symptom=f"wrong-{what}-response-coefficient", detail=f"d{name}/d{p}: {g} expected {e} | {txt}")
            if case["mode"] == "parallel":
                m2 = build(case["net"], case["n1"], case["n2"], case["pars"])
                seq = mca.response_coefficients(m2, to_scan=to_scan, variables=start, normalized=norm, parallel=False, disable_tqdm=True)
                for a, b in ((got.variables, seq.variables), (got.fluxes, seq.fluxes)):
                    if list(a.index) != list(b.index) or list(a.columns) != list(b.columns):
                        return outcome(False, "modes-differ", symptom="sequential-parallel-shape-differs", detail=txt)
                    if float((a - b).abs().to_numpy().max()) > 1e-9:
                        return outcome(False, "modes-differ", symptom="sequential-parallel-values-differ", detail=f"max difference {float((a - b).abs().to_numpy().max())} | {txt}")
    except Exception as exc:  # noqa: BLE001
        return outcome(False, "raised", symptom=f"raised:{type(exc).__name__}", detail=f"{type(exc).__name__}: {exc} | {txt}")
    after = snapshot(m)
    if after != before:
        diff = [(i, a, b) for i, (a, b) in enumerate(zip(before, after, strict=True)) if a != b]
        what = {0: "parameter values", 1: "initial conditions", 2: "declared initial values"}[diff[0][0]]
        return outcome(False, "model-changed", symptom=f"model-changed:{what.replace(' ', '-')}", detail=f"{what} before {diff[0][1]} after {diff[0][2]} | {txt}")
    return outcome(True, "equal-and-untouched")


PREDICATES = {}


def run(ctx):
    cases = generate(ctx.tier)
    par = [c for c in cases if c.get("mode") == "parallel"]
    seq = [c for c in cases if c.get("mode") != "parallel"]
    ctx.note(f"{len(seq)} sequential cases, {len(par)} with real worker pools")
    ctx.evaluate(seq, timeout=300)
    ctx.evaluate(par, timeout=600, procs=6, nestable=True)
