"""C12 - symbolic equations and Jacobian agree with the numeric model.

Models built only from the shipped rate-law library (mxlpy.fns): three networks x every declaration
order of their derived quantities x coefficient kinds x extra features. For each: to_symbolic_model
must succeed, its equations must equal the numeric derivatives at a state grid under two parameter
settings, its Jacobian must equal the (Richardson-extrapolated central difference) derivative of the
numeric right-hand side, and simulating with the Jacobian enabled must give the same trajectories as
without it for LSODA, Radau and BDF (Jacobian calls are counted).
"""

from __future__ import annotations

import itertools as it
import math

from mc.core import outcome

ID = "C12"
LEVEL = "exploration"
TECHNIQUE = "bounded-exhaustive enumeration of translatable models x declaration orders x states x Jacobian-using integrator methods"
LEVEL_TEXT = (
    "Three networks from the shipped rate-law library (chain with Michaelis-Menten efflux, branch, reversible cycle "
    "with a moiety) x every declaration order of up to 3 derived quantities x 4 coefficient kinds x untouched variable "
    "x time dependence x assignment-defined parameter x rate-dependent derived are converted with to_symbolic_model; "
    "equations and Jacobian are evaluated at 4 states x 2 parameter settings and compared with the numeric right-hand "
    "side and its extrapolated finite-difference derivative; each model is simulated with and without Jacobian for "
    "LSODA, Radau, BDF on a stiff setting with Jacobian calls counted."
    " Added: user-written rate laws with statements and branches, an untranslatable rate law (conversion "
    "raises, simulator falls back with a warning), measured / zero coefficients, conversion histories in one "
    "process, and every sequence of <= 3 (thorough 4) simulator operations and model edits with the "
    "integrator's Jacobian compared against finite differences of the model's current right-hand side. "
    ' Also: user rate laws that call helpers with keyword arguments.'
    " Also: module-level numbers named like the laws' arguments; a sign-guarded user law evaluated at negative states; symbols are bound by name, whatever assumptions they carry."
)
LEVEL_NOTE = "trusted: numeric Model RHS (C01), scipy integrators, Richardson-extrapolated central differences (error ~1e-9 relative on these rational functions)"
RULE = (
    "case = (network, derived-order permutation, coefficient kind, feature flags, mode) with mode in {symbolic, "
    "simulate:<method>}; product enumerated completely. Non-trivial = at least one derived quantity or a non-numeric "
    "coefficient or a feature flag; distinct = distinct tuples."
)
ASSUMPTIONS = ["models are built from mxlpy.fns only (the must-convert class of the statement)"]

NETWORKS = ["chain", "branch", "cycle", "names"]
COEFS = ["num", "irr", "zero", "pname", "pcomp", "scomp"]  # irr: a measured coefficient, not a ratio of small integers
METHODS = ["LSODA", "Radau", "BDF"]
STATES = [[0.5, 2.0, 1.5], [2.0, 0.5, 3.0], [1.0, 1.0, 1.0], [3.0, 0.25, 0.5]]
NEG_STATES = [[-0.25, 2.0, 1.5], [-1.0, 0.5, 0.75]]  # legal states too; used where the laws are defined there (user laws)


def _num(expr, values):
    """Numeric value of a sympy expression with its free symbols bound by NAME (the library is free to create its
    symbols with assumptions; the numbers it is asked about are what they are - also zero or negative)."""
    import sympy

    e = sympy.sympify(expr)
    sub = {sym: values[sym.name] for sym in e.free_symbols if sym.name in values}
    return sympy.N(e.xreplace(sub)) if sub else sympy.N(e)


def loop_rate(s, k):
    """A rate law outside the translatable subset (a loop): k * s, written so that nothing can convert it."""
    tot = 0.0
    for _ in range(4):
        tot += k * s / 4
    return tot


# module-level numbers that happen to be called like parameters of the rate laws below (a script that keeps its
# default values next to its functions): inside a function the ARGUMENT of that name is meant, never this number
cap = 9.9
thr = 7.7
vmax = 5.5
km = 3.3


def capped(s, vmax, cap):
    """A user-written rate law with a one-armed if that rebinds a name the other path still reads."""
    v = vmax * s
    if v > cap:
        v = cap
    return v


def switched(s, k, thr):
    return k * s if s > thr else 0.25 * k * s * s


def guarded(s, k):
    """A sign guard on a variable: states may be negative (solver undershoot, potentials), the guard is part of the law."""
    return k * s if s > 0 else 0.1 * k * s - 0.05


def mm_keywords(s, vmax, km):
    """Calls a shipped rate law with its keyword arguments in another order than its signature."""
    from mxlpy import fns

    return fns.michaelis_menten_1s(s, km1=km, vmax=vmax)


N_STEPS = 2  # a module-level int: translating a function that reads it fails in another way than a loop does


def int_global_rate(s, k):
    return k * s * N_STEPS


def build_model(c, stiff=False):
    m = _build_model(c, stiff)
    if c.get("userlaw"):
        first = m.get_variable_names()[0]
        m.add_parameters({"cap": 2.2, "thr": 0.8})
        m.add_reaction("vcap", capped, args=[first, "kin", "cap"], stoichiometry={first: -1})
        m.add_reaction("vsw", switched, args=[first, "kc", "thr"], stoichiometry={first: -1})
        m.add_reaction("vkw", mm_keywords, args=[first, "kin", "cap"], stoichiometry={first: -1})
        m.add_reaction("vgd", guarded, args=[first, "kc"], stoichiometry={first: -1})
    if c.get("untr"):
        first = m.get_variable_names()[0]
        fn = {1: loop_rate, 2: int_global_rate, 3: lambda s, k: (
            k * s)}[c["untr"]]  # 3: a lambda that starts on a continuation line (its source cannot be parsed on its own)
        m.add_reaction("vu", fn, args=[first, "kin"], stoichiometry={first: -1})
    return m


def _build_model(c, stiff=False):
    from mxlpy import Derived, InitialAssignment, Model, fns

    m = Model()
    net = c["net"]
    if net == "names":
        return build_names_model(c, stiff)
    m.add_variables({"x1": 1.0, "x2": 0.5})
    if net == "branch":
        m.add_variable("x3", 0.25)
    if c["untouched"]:
        m.add_variable("u", 2.0)
    k1 = 1000.0 if stiff else 1.5
    m.add_parameters({"kin": 2.0, "k1": k1, "k2": 0.75, "vmax": 3.0, "km": 0.5, "kc": 2.0, "tot": 4.0})
    # derived quantities in the requested declaration order
    derived = {
        "d1": (fns.add, ["k1", "k2"]),            # derived parameter
        "d2": (fns.mul, ["x1", "d1"]),            # derived variable built on d1
        "d3": (fns.proportional, ["d2", "k2"]),   # built on d2
    }
    for name in c["dorder"]:
        fn, args = derived[name]
        m.add_derived(name, fn, args=args)
    nd = len(c["dorder"])
    top = {0: "x1", 1: "x1", 2: "d2", 3: "d3"}[nd]
    rate_k = "d1" if nd >= 1 else "k1"
    coef = {
        "num": 2.0,
        "irr": 0.4321,
        "zero": 0.0,
        "pname": "kc",
        "pcomp": Derived(fn=fns.twice, args=["kc"]),
        "scomp": Derived(fn=fns.add, args=["x1", "kc"]),
    }[c["coef"]]
    m.add_reaction("v0", fns.constant, args=["kin"], stoichiometry={"x1": 1})
    if net == "chain":
        m.add_reaction("v1", fns.mass_action_1s, args=[top, rate_k], stoichiometry={"x1": -1, "x2": coef})
        m.add_reaction("v2", fns.michaelis_menten_1s, args=["x2", "vmax", "km"], stoichiometry={"x2": -1})
    elif net == "branch":
        m.add_reaction("v1", fns.mass_action_1s, args=[top, rate_k], stoichiometry={"x1": -1, "x2": coef})
        m.add_reaction("v1b", fns.mass_action_2s, args=["x1", "x2", "k2"], stoichiometry={"x1": -1, "x2": -1, "x3": 1})
        m.add_reaction("v2", fns.mass_action_1s, args=["x2", "k2"], stoichiometry={"x2": -1})
        m.add_reaction("v3", fns.michaelis_menten_1s, args=["x3", "vmax", "km"], stoichiometry={"x3": -1})
    else:  # cycle with a moiety
        m.add_derived("free", fns.moiety_1s, args=["x2", "tot"])
        m.add_reaction("v1", fns.mass_action_1s_1p, args=[top, "x2", rate_k, "k2"], stoichiometry={"x1": -1, "x2": coef})
        m.add_reaction("v2", fns.mass_action_1s, args=["x2", "k2"], stoichiometry={"x2": -1})
        m.add_reaction("vf", fns.proportional, args=["free", "k2"], stoichiometry={"x1": 1})
    if c["time"]:
        m.add_reaction("vt", fns.mul, args=["time", "k2"], stoichiometry={"x1": 1})
    if c["ia"]:
        m.add_parameter("q", InitialAssignment(fn=fns.twice, args=["k2"]))
        m.add_reaction("vq", fns.mass_action_1s, args=["x1", "q"], stoichiometry={"x1": -1})
    if c["ratedep"]:
        m.add_derived("dr", fns.twice, args=["v0"])
        m.add_reaction("vr", fns.mass_action_1s, args=["x2", "dr"], stoichiometry={"x2": -1})
    return m


def build_names_model(c, stiff):
    """Components are called like the shipped rate laws' own parameters (s1, s2, x, y, k) and are passed in
    shifted or swapped positions."""
    from mxlpy import Derived, Model, fns

    m = Model()
    m.add_variables({"s1": 1.0, "s2": 0.5, "y": 0.75})
    if c["untouched"]:
        m.add_variable("u", 2.0)
    m.add_parameters({"kin": 2.0, "k": 1000.0 if stiff else 1.5, "kf": 0.75, "kr": 0.25, "kc": 2.0, "x": 1.25})
    coef = {"num": 2.0, "irr": 0.4321, "zero": 0.0, "pname": "kc", "pcomp": Derived(fn=fns.twice, args=["kc"]), "scomp": Derived(fn=fns.add, args=["s1", "kc"])}[c["coef"]]
    for name in c["dorder"]:
        # d1 = y / x (div(x, y) with swapped names), d2 = minus(x, y) called as (y, d1), d3 = add(d2, kf)
        fn, args = {"d1": (fns.div, ["y", "x"]), "d2": (fns.minus, ["y", "d1"]), "d3": (fns.add, ["d2", "kf"])}[name]
        m.add_derived(name, fn, args=args)
    nd = len(c["dorder"])
    extra = {0: "kf", 1: "d1", 2: "d2", 3: "d3"}[nd]
    m.add_reaction("v0", fns.constant, args=["kin"], stoichiometry={"s1": 1})
    # mass_action_2s(s1, s2, k) called with (s2, s1, k): swapped own parameter names
    m.add_reaction("v1", fns.mass_action_2s, args=["s2", "s1", "kf"], stoichiometry={"s1": -1, "s2": coef})
    # mass_action_1s_1p(s1, p1, kf, kr) called with (s2, x, kr, kf): shifted / swapped
    m.add_reaction("v2", fns.mass_action_1s_1p, args=["s2", "y", "kr", "kf"], stoichiometry={"s2": -1, "y": 1})
    m.add_reaction("v3", fns.mass_action_1s, args=["y", "k"], stoichiometry={"y": -1})
    m.add_reaction("v4", fns.mass_action_2s, args=["s2", extra, "kr"], stoichiometry={"s2": -1})
    if c["time"]:
        m.add_reaction("vt", fns.mul, args=["time", "kr"], stoichiometry={"s1": 1})
    return m


def generate(tier):
    cases = []
    dorders = [[]]
    for n in (1, 2, 3):
        dorders += [list(p) for p in it.permutations(["d1", "d2", "d3"][:n])]
    flags = list(it.product([0, 1], repeat=4)) if tier == "thorough" else [
        (0, 0, 0, 0), (1, 0, 0, 0), (0, 1, 0, 0), (0, 0, 1, 0), (0, 0, 0, 1), (1, 1, 1, 1)]
    for net, dorder, coef, (untouched, time, ia, ratedep) in it.product(NETWORKS, dorders, COEFS, flags):
        if net == "names" and (ia or ratedep):
            continue
        base = {"net": net, "dorder": dorder, "coef": coef, "untouched": untouched, "time": time, "ia": ia, "ratedep": ratedep}
        cases.append({**base, "mode": "symbolic"})
    # simulation with Jacobian: fewer shapes (each run integrates a stiff system three times)
    sim_flags = flags if tier == "thorough" else [(0, 0, 0, 0), (1, 1, 0, 0), (0, 0, 1, 1)]
    sim_orders = dorders if tier == "thorough" else [[], ["d1"], ["d2", "d1"], ["d3", "d1", "d2"]]
    for net, dorder, coef, (untouched, time, ia, ratedep), method in it.product(NETWORKS, sim_orders, COEFS if tier == "thorough" else [c for c in COEFS if c not in ("irr", "zero")], sim_flags, METHODS):
        if net == "names" and (ia or ratedep):
            continue
        cases.append({"net": net, "dorder": dorder, "coef": coef, "untouched": untouched, "time": time, "ia": ia,
                      "ratedep": ratedep, "mode": f"simulate:{method}"})
    # user-written rate laws with statements and branches (everything else above is the shipped library)
    for net, dorder, coef in it.product(NETWORKS, [[], ["d1"], ["d3", "d1", "d2"]], ("num", "scomp")):
        base = {"net": net, "dorder": dorder, "coef": coef, "untouched": 0, "time": 0, "ia": 0, "ratedep": 0, "userlaw": 1}
        cases.append({**base, "mode": "symbolic"})
        if not dorder:
            for method in METHODS:
                cases.append({**base, "mode": f"simulate:{method}"})
    # a rate law that cannot be converted: to_symbolic_model raises, the simulator falls back with a warning
    for net, dorder, coef, untr in it.product(NETWORKS, [[], ["d2", "d1"]], ("num", "pcomp"), (1, 2, 3)):
        base = {"net": net, "dorder": dorder, "coef": coef, "untouched": 0, "time": 0, "ia": 0, "ratedep": 0, "untr": untr}
        cases.append({**base, "mode": "symbolic"})
        for method in METHODS:
            cases.append({**base, "mode": f"simulate:{method}"})
    return cases


def _close(a, b, tol):
    if math.isnan(a) and math.isnan(b):
        return True
    return abs(a - b) <= tol + tol * max(abs(a), abs(b))


def _numeric_jacobian(m, var_names, y, t):
    """Richardson-extrapolated central differences of the numeric right-hand side."""
    import numpy as np

    def f(yv):
        return np.array(m(t, list(yv)), dtype=float)

    n = len(y)
    J = np.zeros((n, n))
    y = np.array(y, dtype=float)
    for j in range(n):
        h = 1e-3 * max(1.0, abs(y[j]))
        def d(hh):
            e = np.zeros(n)
            e[j] = hh
            return (f(y + e) - f(y - e)) / (2 * hh)
        J[:, j] = (4 * d(h / 2) - d(h)) / 3
    return J


def check_symbolic(case, nt):
    import sympy
    from mxlpy import to_symbolic_model

    txt = f"{case}"
    if case.get("untr"):
        try:
            sm = to_symbolic_model(build_model(case))
        except Exception:  # noqa: BLE001 - "anything that cannot be converted raises"
            return outcome(True, "conversion-refused", nontrivial=True)
        return outcome(False, "converted-untranslatable", symptom="converted-untranslatable", nontrivial=True,
                       detail=f"a rate law with a loop cannot be converted, yet equations came back: {sm.eqs} | {txt}")
    for setting in (0, 1):
        m = build_model(case)
        if setting == 1:
            m.update_parameters({"k1": 0.5, "k2": 1.25, "kc": 3.0, "kin": 1.0} if case["net"] != "names" else {"k": 0.5, "kf": 1.25, "kc": 3.0, "x": 0.5})
        try:
            sm = to_symbolic_model(m)
        except Exception as exc:  # noqa: BLE001
            import traceback

            tb = traceback.extract_tb(exc.__traceback__)
            where = next((fr.name for fr in reversed(tb) if "/mxlpy/" in fr.filename), "?")
            return outcome(False, "conversion-raised", symptom=f"conversion-raised:{type(exc).__name__}", nontrivial=nt,
                           detail=f"to_symbolic_model raised {type(exc).__name__}: {exc} (in {where}) | {txt}")
        var_names = m.get_variable_names()
        if list(sm.variables) != var_names or len(sm.eqs) != len(var_names):
            return outcome(False, "wrong-shape", symptom="wrong-shape", nontrivial=nt,
                           detail=f"variables {list(sm.variables)} eqs {len(sm.eqs)} vs model {var_names} | {txt}")
        try:
            jac = sm.jacobian()
        except Exception as exc:  # noqa: BLE001
            return outcome(False, "jacobian-raised", symptom=f"jacobian-raised:{type(exc).__name__}", nontrivial=nt, detail=f"{exc} | {txt}")
        pvals = {**sm.parameter_values}
        for st in STATES + (NEG_STATES if case.get("userlaw") else []):
            for t in (0.0, 1.5):
                y = st[: len(var_names)] if len(var_names) <= 3 else [*st, 2.0][: len(var_names)]
                state = dict(zip(var_names, y, strict=True))
                rhs = m.get_right_hand_side(state, t)
                subs = {**pvals, **state, "time": t}
                for v, eq in zip(var_names, sm.eqs, strict=True):
                    val = _num(eq, subs)
                    if getattr(val, "free_symbols", None):
                        return outcome(False, "unbound-symbols", symptom="unbound-symbols", nontrivial=nt,
                                       detail=f"equation for {v} keeps symbols {val.free_symbols} after binding variables, parameters and time | {txt}")
                    if not _close(float(val), float(rhs[v]), 1e-9):
                        return outcome(False, "equations-differ", symptom="equations-differ", nontrivial=nt,
                                       detail=f"d{v}/dt at {state}, t={t}, setting {setting}: symbolic {float(val)} numeric {float(rhs[v])} | {txt}")
                Jn = _numeric_jacobian(m, var_names, y, t)
                for i in range(len(var_names)):
                    for j in range(len(var_names)):
                        val = _num(jac[i, j], subs)
                        if getattr(val, "free_symbols", None):
                            return outcome(False, "unbound-symbols", symptom="unbound-symbols:jacobian", nontrivial=nt, detail=f"{val.free_symbols} | {txt}")
                        if not _close(float(val), float(Jn[i, j]), 2e-6):
                            return outcome(False, "jacobian-differs", symptom="jacobian-differs", nontrivial=nt,
                                           detail=f"J[{var_names[i]},{var_names[j]}] at {state}, t={t}: symbolic {float(val)} numeric {float(Jn[i, j])} | {txt}")
    # one symbolic model, another parameter setting: bind the parameter symbols to the values of a model
    # updated to that setting ("at every state and parameter setting")
    if case["net"] == "names":
        return outcome(True, "converted-equal", nontrivial=nt)
    m0 = build_model(case)
    sm0 = to_symbolic_model(m0)
    m1 = build_model(case)
    m1.update_parameters({"k1": 0.5, "k2": 1.25, "kc": 3.0, "kin": 1.0})
    p1 = to_symbolic_model(m1).parameter_values
    var_names = m1.get_variable_names()
    for st in STATES[:2]:
        y = st[: len(var_names)] if len(var_names) <= 3 else [*st, 2.0][: len(var_names)]
        state = dict(zip(var_names, y, strict=True))
        rhs = m1.get_right_hand_side(state, 0.5)
        subs = {**p1, **state, "time": 0.5}
        for v, eq in zip(var_names, sm0.eqs, strict=True):
            val = float(_num(eq, subs))
            if not _close(val, float(rhs[v]), 1e-9):
                return outcome(False, "equations-differ", symptom="equations-differ:parameter-setting", nontrivial=nt,
                               detail=f"d{v}/dt at {state} with parameters re-bound to {p1}: symbolic {val} numeric {float(rhs[v])} | {txt}")
    return outcome(True, "converted-equal", nontrivial=nt)


def check_simulation(case, nt):
    import logging
    from functools import partial

    import numpy as np
    from mxlpy import Scipy, Simulator

    method = case["mode"].split(":")[1]
    txt = f"{case}"
    records = []

    class _H(logging.Handler):
        def emit(self, record):
            records.append(record)

    h = _H(level=logging.WARNING)
    lg = logging.getLogger("mxlpy.simulator")
    old_level = lg.level
    lg.setLevel(logging.WARNING)
    old_prop = lg.propagate
    lg.propagate = False  # the records are collected here, not printed
    lg.addHandler(h)
    try:
        t_end = 2.0
        ref = Simulator(build_model(case, stiff=True), integrator=partial(Scipy, method=method), use_jacobian=False)
        ref.simulate(t_end, steps=10)
        r0 = ref.get_result().value
        if isinstance(r0, Exception):
            return outcome(True, "reference-run-failed", nontrivial=False)
        try:
            sim = Simulator(build_model(case, stiff=True), integrator=partial(Scipy, method=method), use_jacobian=True)
        except Exception as exc:  # noqa: BLE001
            return outcome(False, "simulator-raised", symptom=f"simulator-construction-raised:{type(exc).__name__}", nontrivial=nt, detail=f"{exc} | {txt}")
        jac = sim.integrator.jacobian
        if case.get("untr") and jac is not None:
            return outcome(False, "jacobian-for-untranslatable", symptom="jacobian-for-untranslatable", nontrivial=True,
                           detail=f"a model with an untranslatable rate law got a Jacobian instead of the documented fallback | {txt}")
        if jac is None:
            if not any(r.levelno >= logging.WARNING for r in records):
                return outcome(False, "silent-fallback", symptom="silent-fallback", nontrivial=nt, detail=f"Jacobian dropped without a warning | {txt}")
            fallback = True
        else:
            fallback = False
            calls = {"n": 0}

            def counting(t, y, _j=jac):
                calls["n"] += 1
                return _j(t, y)

            sim.integrator.jacobian = counting
        try:
            sim.simulate(t_end, steps=10)
        except Exception as exc:  # noqa: BLE001
            return outcome(False, "simulate-raised", symptom=f"simulate-raised:{type(exc).__name__}", nontrivial=nt,
                           detail=f"{type(exc).__name__}: {str(exc)[:200]} | {txt}")
        r1 = sim.get_result().value
        if isinstance(r1, Exception):
            return outcome(False, "simulate-failed", symptom=f"simulate-failed:{type(r1).__name__}", nontrivial=nt,
                           detail=f"run with Jacobian failed ({type(r1).__name__}) although the run without succeeded | {txt}")
        a = r0.variables.to_numpy(dtype=float)
        b = r1.variables.to_numpy(dtype=float)
        # both runs solve the same equations to the integrator's tolerance; a wrong Jacobian shows as a
        # failed or grossly different run, the Jacobian's values themselves are checked in symbolic mode
        if a.shape != b.shape or not np.allclose(a, b, rtol=1e-3, atol=1e-5):
            worst = float(np.max(np.abs(a - b))) if a.shape == b.shape else float("nan")
            return outcome(False, "trajectory-differs", symptom="trajectory-differs", nontrivial=nt,
                           detail=f"max abs difference {worst} between runs with and without Jacobian | {txt}")
        if fallback:
            return outcome(True, "fallback-with-warning", nontrivial=nt)
        return outcome(True, "same-trajectory", nontrivial=nt, extra={"jacobian_calls": calls["n"], "runs_with_jacobian_called": 1 if calls["n"] else 0})
    finally:
        lg.removeHandler(h)
        lg.setLevel(old_level)
        lg.propagate = old_prop


def _history_model(variant):
    """Two models that share every rate function and argument name but define a derived quantity differently."""
    from mxlpy import Model, fns

    m = Model()
    m.add_variables({"x1": 1.0, "x2": 0.5}).add_parameters({"kin": 2.0, "k1": 1.5, "k2": 0.75, "tot": 4.0})
    if variant == "A":
        m.add_derived("d1", fns.add, args=["k1", "k2"])
        m.add_derived("free", fns.moiety_1s, args=["x2", "tot"])
    else:
        m.add_derived("d1", fns.mul, args=["k1", "x2"])
        m.add_derived("free", fns.mul, args=["tot", "x1"])
    m.add_reaction("v0", fns.constant, args=["kin"], stoichiometry={"x1": 1})
    m.add_reaction("v1", fns.mass_action_1s, args=["x1", "d1"], stoichiometry={"x1": -1, "x2": 1})
    m.add_reaction("v2", fns.mass_action_2s, args=["x2", "free", "k2"], stoichiometry={"x2": -1})
    return m


def check_history(case):
    """Several conversions in ONE process: each must describe the model it was given."""
    import sympy
    from mxlpy import fns, to_symbolic_model

    txt = f"{case}"
    current = None
    for i, step in enumerate(case["steps"]):
        if step in ("A", "B"):
            current = _history_model(step)
        elif step == "edit":
            current.update_derived("d1", fns.mul, args=["k2", "x1"])
        sm = to_symbolic_model(current)
        names = current.get_variable_names()
        for st in STATES[:3]:
            state = dict(zip(names, st[: len(names)], strict=True))
            rhs = current.get_right_hand_side(state, 0.5)
            subs = {**sm.parameter_values, **state, "time": 0.5}
            for v, eq in zip(names, sm.eqs, strict=True):
                val = float(_num(eq, subs))
                if not _close(val, float(rhs[v]), 1e-9):
                    return outcome(False, "equations-differ", symptom="equations-differ:after-earlier-conversion", nontrivial=True,
                                   detail=f"after conversions {case['steps'][: i + 1]}: d{v}/dt symbolic {val} numeric {float(rhs[v])} at {state} | {txt}")
            jac = sm.jacobian()
            Jn = _numeric_jacobian(current, names, st[: len(names)], 0.5)
            for a in range(len(names)):
                for b in range(len(names)):
                    if not _close(float(_num(jac[a, b], subs)), float(Jn[a, b]), 2e-6):
                        return outcome(False, "jacobian-differs", symptom="jacobian-differs:after-earlier-conversion", nontrivial=True,
                                       detail=f"after conversions {case['steps'][: i + 1]}: J[{a},{b}] differs | {txt}")
    return outcome(True, "converted-equal", nontrivial=True)


def sat2(s, k):
    return k * s / (1.0 + s)


def scaled_sum(a, b):
    return 0.5 * (a + b) + 0.25


SIM_OPS = ["simulate", "update_parameter", "update_variable", "clear_results", "edit-rate-law", "edit-derived"]


def check_simulator_history(case):
    """The Jacobian the simulator hands to its integrator is the derivative of the model's CURRENT right-hand side
    after every sequence of simulator operations; a rate law / derived function replaced on the simulator's model
    counts from the next re-initialisation (clear_results, update_variable) on."""
    import logging
    from functools import partial

    import numpy as np
    from mxlpy import Scipy, Simulator

    logging.getLogger("mxlpy.simulator").setLevel(logging.CRITICAL)
    base = {"net": "chain", "dorder": ["d1", "d2"], "coef": "pcomp", "untouched": 0, "time": 0, "ia": 0, "ratedep": 0}
    sim = Simulator(build_model(base), integrator=partial(Scipy, method=case["method"]), use_jacobian=True)
    if sim.integrator.jacobian is None:
        return outcome(False, "no-jacobian", symptom="simulator-history:no-jacobian", nontrivial=True, detail=f"{case}")
    t_now = 0.0
    dirty = False
    var_names = sim.model.get_variable_names()
    for i, op in enumerate(case["ops"]):
        if op == "simulate":
            t_now += 0.25
            sim.simulate(t_now, steps=2)
        elif op == "update_parameter":
            sim.update_parameter("k2", 1.9)
        elif op == "update_variable":
            sim.update_variable("x2", 0.8)
            dirty = False
        elif op == "clear_results":
            sim.clear_results()
            t_now = 0.0
            dirty = False
        elif op == "edit-rate-law":
            sim.model.update_reaction("v2", fn=sat2, args=["x2", "vmax"])
            dirty = True
        else:
            sim.model.update_derived("d1", fn=scaled_sum)
            dirty = True
        if dirty:
            continue
        jac = sim.integrator.jacobian
        if jac is None:
            continue  # dropped with a warning: the documented fallback
        for y in ([0.5, 2.0], [2.0, 0.5]):
            got = np.asarray(jac(t_now, np.array(y, dtype=float)), dtype=float)
            want = _numeric_jacobian(sim.model, var_names, y, t_now)
            if got.shape != want.shape or not np.allclose(got, want, rtol=2e-6, atol=2e-6):
                return outcome(False, "stale-jacobian", symptom="simulator-history:jacobian-differs", nontrivial=True,
                               detail=f"after {case['ops'][: i + 1]} the integrator's Jacobian at {y} is {got.tolist()}, the derivative of the model's right-hand side {want.tolist()} | {case}")
    return outcome(True, "jacobian-current", nontrivial=True)


def check(case):
    import logging

    logging.getLogger("mxlpy.meta").setLevel(logging.CRITICAL)
    if case.get("mode") == "simulator-history":
        return check_simulator_history(case)
    if case.get("mode") == "history":
        return check_history(case)
    nt = bool(case["dorder"]) or case["coef"] != "num" or any(case[k] for k in ("untouched", "time", "ia", "ratedep"))
    if case["mode"] == "symbolic":
        return check_symbolic(case, nt)
    return check_simulation(case, nt)


PREDICATES = {}


def run(ctx):
    cases = generate(ctx.tier)
    for steps in (["A", "B"], ["B", "A"], ["A", "edit"], ["B", "A", "B"], ["A", "A", "edit", "B"]):
        cases.append({"mode": "history", "steps": steps})
    depth = 3 if ctx.tier == "quick" else 4
    for n in range(1, depth + 1):
        for ops in it.product(SIM_OPS, repeat=n):
            if ops[-1] in ("edit-rate-law", "edit-derived"):
                continue  # nothing is observed right after an edit
            for method in ("LSODA",) if ctx.tier == "quick" else METHODS:
                cases.append({"mode": "simulator-history", "ops": list(ops), "method": method})
    sym = [c for c in cases if c["mode"] in ("symbolic", "history", "simulator-history")]
    sim = [c for c in cases if c["mode"].startswith("simulate")]
    ctx.note(f"{len(sym)} symbolic cases, {len(sim)} simulations with Jacobian")
    ctx.evaluate(sym, timeout=300)
    if ctx.failures:
        # A wrong Jacobian makes the implicit solvers crawl (each run can take minutes): the symbolic family
        # has already decided the property, so the simulations are skipped and the run is reported as partial.
        ctx.exhaustive = False
        ctx.note("symbolic family found failures: Jacobian simulations skipped")
        return
    # a healthy run takes < 1 s; a run that needs more than 60 s is reported as not terminating
    ctx.evaluate(sim, timeout=60)
