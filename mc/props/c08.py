"""C08 - SBML export then import reproduces the model, or the export fails.

Bounded-exhaustive product of model shapes (coefficient kinds, derived quantities, initial
assignments) x single-expression rate laws x identifier variants; every case is written with
mxlpy.sbml.write, read back with mxlpy.sbml.read and compared with the original model at a state grid.
"""

from __future__ import annotations

import importlib
import itertools as it
import math
import os
import sys
from pathlib import Path

from mc.core import WORK_DIR, outcome, sha12

ID = "C08"
LEVEL = "exploration"
TECHNIQUE = "bounded-exhaustive enumeration of model shapes x rate-law expression shapes x identifier variants through the real write->read round trip"
LEVEL_TEXT = (
    "Every combination of 7 coefficient kinds, 3 derived-quantity shapes, 3 initial-assignment shapes, ~45 single-"
    "expression rate laws (arithmetic, power, conditional, chained / equality comparisons, math and numpy functions, "
    "constants, helper calls, constructs outside the subset) and 7 identifier variants (quick: the union of three "
    "sub-products) is exported with sbml.write and re-imported with sbml.read; names per kind, initial values, and at 4 "
    "states the derivatives, fluxes and derived values must equal the original's, or the export must raise. Every "
    "model that comes back is written and read a second time (second generation) and must survive that unchanged. "
    "Models that were themselves imported from the SBML documents of C17's generator (compartment size 2, amounts / "
    "concentrations, substance-only species, rules, function definitions, rule-defined stoichiometry, initial-"
    "assignment chains) are written and read as well. Sessions: two round trips in one process under related file "
    "names (same path, same stem elsewhere, stems differing in punctuation or case)."
    " Also: rate laws in several signature variants, comparison chains whose branches differ at the boundary, exactly-zero coefficients, and components named like the importer's or the emitter's own helpers."
    ' Also: identifier variant with non-ASCII letters; laws that call members of a user namespace named like library functions (must be refused).'
)
LEVEL_NOTE = "trusted: libsbml and the third-party pysbml parser; helper components added by the importer (compartment, <species>_amount) are ignored; only the original's names are compared"
RULE = (
    "case = (coefficient kind, derived shape, initial assignment, rate law, identifier variant) | (imported document "
    "description) | (ordered pair of models, file-name relation); products enumerated "
    "completely per tier. Non-trivial = anything but (unit coefficient, no derived, no assignment, plain mass action, "
    "plain names); distinct = distinct case tuples."
)
ASSUMPTIONS = ["rate laws are single-expression functions of (x, y, k); default compartment of size 1"]

# (source expression, class): 'must' = listed by the statement as supported -> must round-trip;
# 'may' = either round-trips or the export raises; 'refuse' = outside the subset, export must not
# write a file that means something else (raise, or round-trip correctly)
LAWS = [
    ("k * x", "must"),
    ("k * x * y", "must"),
    ("k * x / (y + 1.0)", "must"),
    ("k * x ** 2", "must"),
    ("-(k * x) + y", "must"),
    ("k * x - y / 2", "must"),
    ("2 * x", "must"),
    ("(x + y) * (k - 0.25)", "must"),
    ("x ** 0.5 * k", "must"),
    ("k * abs(x - y)", "must"),
    ("math.sqrt(x) * k", "must"),
    ("math.log(x + 1.0) * k", "must"),
    ("math.exp(-x) * k", "must"),
    ("math.sin(x) + k", "must"),
    ("math.cos(x) * k", "must"),
    ("math.tanh(x) * k", "must"),
    ("math.log10(x + 1.0)", "must"),
    ("math.ceil(x) * k", "must"),
    ("math.floor(x + 0.5) * k", "may"),
    ("min(x, y) * k", "must"),
    ("max(x, k, y)", "must"),
    ("math.pi * x", "must"),
    ("math.e * k * x", "must"),
    ("k * x if x > 1.0 else k", "must"),
    ("(k if x <= y else 2 * k) * x", "must"),
    ("k if 0.5 < x < 2 else 0.25", "must"),
    ("k * x if 0.5 <= x < y else k * y", "must"),
    ("k if x == 1.0 else 2.0 * k", "must"),
    ("k if x != y else 3.0 * k", "must"),
    ("k * x if x >= 2.0 else (k * y if y > 1.0 else 0.125)", "must"),
    ("numpy.exp(-x) * k", "may"),
    ("np.sqrt(x) * k", "may"),
    ("pow(x, 2) * k", "may"),
    ("math.pow(x, 2) * k", "may"),
    ("numpy.power(x, 2) * k", "may"),
    ("helper(x, k)", "may"),
    ("x // 2 + k", "may"),
    ("x % 2 + k", "refuse"),
    ("+x * k", "refuse"),
    ("k * x if x > 1.0 and y > 1.0 else k", "refuse"),
    ("k * x if not x > 1.0 else k", "refuse"),
    ("k * x if x > 0.75 and y > 0.75 and x < y else k", "refuse"),
    ("k * x if x > 2.5 or y > 2.5 or x == y else k", "refuse"),
    ("k * x if x > 0.75 and (y > 1.75 or x > 2.5) else k", "refuse"),
    ("math.atan2(x, y)", "refuse"),
    ("math.log(x + 1.0, 10) * k", "refuse"),
    ("k * x * 3000000000", "must"),
    ("k * x / 4000000000.0", "must"),
    ("k * x * 1e-12", "must"),
    ("k * x * True", "refuse"),
    # chains whose links use different operators, with branches that differ AT the boundary x == y / x == 0.5
    ("k * x if 0.5 <= x < y else 2.0 * k * y + 1.0", "must"),
    ("k if y > x >= 0.5 else 3.0 * k + x", "must"),
    ("k * x if 0.25 < x <= y else -k", "must"),
    # other ways of declaring the parameters (positional-only, defaults, annotations)
    ("#sig: x, /, y, k :: k * x / (y + 1.0)", "may"),
    ("#sig: x, y, /, k :: k * x - y / 4", "may"),
    ("#sig: x, y, k, / :: k * x / (y + 2.0)", "may"),
    ("#sig: x, y, k=2.0 :: k * x / (y + 3.0)", "may"),
    ("#sig: x: float, y: float, k: float = 1.0 :: k * (x - y)", "may"),
    ("k * math.sqrt((x - y) ** 2)", "may"),
    ("k * ((x - y) ** 2) ** 0.25 + x", "may"),
    # two-argument functions whose MathML namesakes mean something else (rem is the floored modulo, ...)
    ("k * math.remainder(x, y)", "refuse"),
    ("k * math.fmod(x, y)", "refuse"),
    ("k * numpy.remainder(x, y)", "refuse"),
    ("k * numpy.mod(x, y)", "refuse"),
    ("k * math.hypot(x, y)", "refuse"),
    ("k * math.copysign(x, -y)", "refuse"),
    ("k * math.ldexp(x, 2)", "refuse"),
    ("math.log(x + 1.0, y + 1.0)", "refuse"),
    ("k * divmod(x, y)[0]", "refuse"),
    ("k * round(x)", "refuse"),
    # attribute calls on a namespace of the user's own whose members are merely CALLED like library functions
    ("k * lib.pow(x, y)", "refuse"),
    ("k * lib.log(x + 1.0) - y", "refuse"),
    ("k * lib.sqrt(x) + lib.exp(y)", "refuse"),
    ("k * lib.min(x, y)", "refuse"),
    ("k * math.trunc(x + 0.5)", "refuse"),
]
BODIES = [  # multi-statement bodies: outside the single-expression subset
    ("t = k * x\n    return t + y", "refuse"),
    ("if x > 1.0:\n        return k * x\n    return k", "refuse"),
]

NAMES = {
    "plain": {"x": "x", "k": "k", "v1": "v1", "d": "d1"},
    "dunder": {"x": "x__1", "k": "k_cat", "v1": "v_1", "d": "d_1"},
    "digit": {"x": "1x", "k": "2k", "v1": "3v", "d": "4d"},
    "dot": {"x": "a.b", "k": "k.cat", "v1": "v.1", "d": "d.1"},
    "dash": {"x": "a-b", "k": "k-cat", "v1": "v-1", "d": "d-1"},
    "space": {"x": "a b", "k": "k cat", "v1": "v 1", "d": "d 1"},
    "keyword": {"x": "class", "k": "lambda", "v1": "def", "d": "in"},
    "unicode": {"x": "S\u03b2", "k": "k_\u00b5max", "v1": "v\u03bb", "d": "d\u03c3"},  # legal Python identifiers, not legal SBML ids
    # names the code generator behind sbml.read makes up itself (init_<name> for initial assignments, ...)
    "internal-y": {"x": "x", "k": "k", "v1": "v1", "d": "init_y"},
    "internal-p": {"x": "x", "k": "k", "v1": "v1", "d": "init_p"},
    "internal-fn": {"x": "x", "k": "k", "v1": "ma1", "d": "add2"},
}
COEFS = ["one", "two", "half", "neghalf", "pname", "pcomp", "ncomp", "zero"]
DERIVED = ["none", "dpar", "dvar", "coef2"]
IAS = ["none", "var", "par"]
STATES = [[0.5, 2.0], [2.0, 0.5], [1.0, 1.0], [3.0, 1.5], [2.5, 4.0], [0.25, 3.0]]  # incl. x mod y >= y / 2

HELPERS = '''
import math
import numpy
import numpy as np


def helper(a, b):
    return a * b + 1.0


def ma1(s, k):
    return k * s


def add2(a, b):
    return a + b


def mul2(a, b):
    return a * b


def twice(a):
    return 2.0 * a


def half_plus(k):
    return k + 0.5


def neg_half(k):
    return -(k + 0.5)


class lib:
    """A namespace of the model author: same member names as the math library, other meanings."""

    @staticmethod
    def pow(a, b):
        return a * b + 1.0

    @staticmethod
    def log(a):
        return a + 2.0

    @staticmethod
    def sqrt(a):
        return a * a

    @staticmethod
    def exp(a):
        return 3.0 * a

    @staticmethod
    def min(a, b):
        return a + b

'''


def module_source():
    parts = [HELPERS]
    for i, (e, _c) in enumerate(LAWS):
        sig = "x, y, k"
        if e.startswith("#sig: "):  # a law may bring its own way of declaring the three parameters
            sig, e = e[len("#sig: "):].split(" :: ")
        parts.append(f"def law_{i}({sig}):\n    return {e}\n")
    for j, (b, _c) in enumerate(BODIES):
        parts.append(f"def law_{len(LAWS) + j}(x, y, k):\n    {b}\n")
    return "\n\n".join(parts)


_MOD = None


def laws_module():
    global _MOD
    if _MOD is None:
        d = WORK_DIR / "C08" / f"gen_{os.getpid()}"
        d.mkdir(parents=True, exist_ok=True)
        src = module_source()
        name = f"mc_c08_laws_{sha12(src)}"
        (d / f"{name}.py").write_text(src)
        if str(d) not in sys.path:
            sys.path.insert(0, str(d))
        importlib.invalidate_caches()
        _MOD = importlib.import_module(name)
    return _MOD


def law_class(i):
    return (LAWS + BODIES)[i][1]


def build_model(c):
    from mxlpy import Derived, InitialAssignment, Model

    L = laws_module()
    nm = NAMES[c["names"]]
    X, K, V1, D = nm["x"], nm["k"], nm["v1"], nm["d"]
    m = Model()
    m.add_variable(X, 1.0)
    if c["ia"] == "var":
        m.add_variable("y", InitialAssignment(fn=L.add2, args=[K, "p"]))
    else:
        m.add_variable("y", 2.0)
    m.add_parameter(K, 0.5)
    if c["ia"] == "par":
        m.add_parameter("p", InitialAssignment(fn=L.twice, args=[K]))
    else:
        m.add_parameter("p", 3.0)
    coef = {
        "one": 1, "two": 2, "half": 0.5, "neghalf": -0.5, "pname": "p", "zero": 0.0,
        "pcomp": Derived(fn=L.half_plus, args=[K]), "ncomp": Derived(fn=L.neg_half, args=[K]),
    }[c["coef"]]
    m.add_reaction(V1, getattr(L, f"law_{c['law']}"), args=[X, "y", K], stoichiometry={X: -1, "y": coef})
    if c["derived"] == "dpar":
        m.add_derived(D, L.add2, args=[K, "p"])
        m.add_reaction("v2", L.ma1, args=["y", D], stoichiometry={"y": -1})
    elif c["derived"] == "dvar":
        m.add_derived(D, L.mul2, args=[X, K])
        m.add_reaction("v2", L.ma1, args=[D, K], stoichiometry={"y": -1})
    elif c["derived"] == "coef2":
        # a second reaction with a computed coefficient on the same species
        m.add_reaction("v2", L.ma1, args=["y", K], stoichiometry={"y": Derived(fn=L.neg_half, args=["p"]), X: Derived(fn=L.half_plus, args=["p"])})
    else:
        m.add_reaction("v2", L.ma1, args=["y", K], stoichiometry={"y": -1})
    return m, nm


def generate(tier):
    nlaws = len(LAWS) + len(BODIES)
    cases = []

    def add(coef, derived, ia, law, names):
        cases.append({"coef": coef, "derived": derived, "ia": ia, "law": law, "names": names})

    if tier in ("thorough", "quick"):
        for files, (i, a), (j, b) in it.product(SESSION_FILES, enumerate(SESSION_CASES), enumerate(SESSION_CASES)):
            if i != j:
                cases.append({"family": "session", "files": files, "first": a, "second": b, "names": "plain"})
        from mc.props import c17

        for doc in c17.generate(tier):
            if doc["session"] == "single" and doc["names"] in ("plain", "keyword", "timelike", "modules"):
                cases.append({"family": "imported", "doc": doc, "names": "plain"})
        # full structural product under the two identifier variants that need no escaping ...
        for coef, derived, ia, law, names in it.product(COEFS, DERIVED, IAS, range(nlaws), ("plain", "dunder")):
            add(coef, derived, ia, law, names)
        # ... and every variant that needs escaping on a sub-product
        for names in ("internal-y", "internal-p", "internal-fn"):
            for coef, derived, ia, law in it.product(("one", "pcomp"), ("dpar", "dvar"), IAS, (0, 2, 12, 23)):
                add(coef, derived, ia, law, names)
        for names in NAMES:
            if names in ("plain", "dunder") or names.startswith("internal"):
                continue
            if tier == "thorough":  # every identifier variant on the whole structural product
                for coef, derived, ia, law in it.product(COEFS, DERIVED, IAS, range(nlaws)):
                    add(coef, derived, ia, law, names)
                continue
            for coef, derived, law in it.product(("one", "pname"), DERIVED, (0, 2, 23)):
                add(coef, derived, "none", law, names)
        return cases
    seen = set()
    for law in range(nlaws):  # every law on the plain model
        add("one", "none", "none", law, "plain")
    for names in NAMES:  # every naming variant x a few laws x shapes with a derived
        for law in (0, 2, 23):
            for derived in DERIVED:
                add("one", derived, "none", law, names)
    for coef, derived, ia in it.product(COEFS, DERIVED, IAS):  # every structural shape x 3 laws
        for law in (0, 12, 25):
            add(coef, derived, ia, law, "plain")
    out = []
    for c in cases:
        k = sha12(c)
        if k not in seen:
            seen.add(k)
            out.append(c)
    return out


def _close(a, b):
    if math.isnan(a) and math.isnan(b):
        return True
    return abs(a - b) <= 1e-9 + 1e-9 * max(abs(a), abs(b))


# one process, several files: what a second write/read under a related file name must not inherit from the first
SESSION_FILES = {
    "same-path": ("a/model.xml", "a/model.xml"),              # the model was revised and exported again
    "same-stem-other-dir": ("a/model.xml", "b/model.xml"),
    "stem-differs-in-punctuation": ("a/my-model.xml", "a/my_model.xml"),
    "stem-differs-in-case": ("a/Model.xml", "a/model.xml"),
}
SESSION_CASES = [
    {"coef": "one", "derived": "none", "ia": "none", "law": 0, "names": "plain"},
    {"coef": "pname", "derived": "chain", "ia": "none", "law": 2, "names": "plain"},
    {"coef": "one", "derived": "none", "ia": "none", "law": 23, "names": "dunder"},
    {"coef": "half", "derived": "one", "ia": "none", "law": 12, "names": "plain"},
]


def check(case):
    import logging
    import warnings

    logging.getLogger("mxlpy").setLevel(logging.CRITICAL)
    logging.getLogger("pysbml").setLevel(logging.CRITICAL)
    warnings.simplefilter("ignore")
    home = WORK_DIR / "C08" / f"home_{os.getpid()}"
    home.mkdir(parents=True, exist_ok=True)
    os.environ["HOME"] = str(home)
    if case.get("family") == "session":
        d = home / f"s_{sha12(case)}"
        fa, fb = (d / f for f in SESSION_FILES[case["files"]])
        try:
            for f, c in ((fa, case["first"]), (fb, case["second"])):
                f.parent.mkdir(parents=True, exist_ok=True)
                res = roundtrip(c, f)
                if not res["ok"]:
                    res["symptom"] = f"session:{res['symptom']}"
                    res["detail"] = f"[{case['files']}: second of two round trips in one process]" * (f is fb) + res["detail"]
                    res["nontrivial"] = True
                    return res
        finally:
            import shutil

            shutil.rmtree(d, ignore_errors=True)
        return outcome(True, "session-roundtrips-equal", nontrivial=True)
    if case.get("family") == "imported":
        return check_imported(case, home)
    return roundtrip(case, home / f"c08_{sha12(case)}.xml")


def check_imported(case, home):
    """Models that were themselves read from SBML (documents of C17's generator: compartment sizes, amounts,
    rules, function definitions, rule-defined stoichiometry) are surrogate-free models too: write and read them."""
    from mxlpy import sbml

    from mc.props import c17

    d = home / f"imp_{sha12(case)}"
    d.mkdir(parents=True, exist_ok=True)
    try:
        c17.write_document(case["doc"], d / "doc.xml")
        try:
            m = sbml.read(d / "doc.xml")
            m.get_args()
        except Exception:  # noqa: BLE001 - reading third-party documents is C17's subject
            return outcome(True, "document-not-imported", nontrivial=False)
        return _roundtrip_model(m, d / "exported.xml", "may", True, f"model imported from the generated document {case['doc']}", generation=2)
    finally:
        import shutil

        shutil.rmtree(d, ignore_errors=True)


def roundtrip(case, file):
    cls = law_class(case["law"])
    nontrivial = not (case["coef"] == "one" and case["derived"] == "none" and case["ia"] == "none" and case["law"] == 0 and case["names"] == "plain")
    m1, _nm = build_model(case)
    txt = f"law=`{(LAWS + BODIES)[case['law']][0]}` ({cls}) shape={case}"
    return _roundtrip_model(m1, file, cls, nontrivial, txt, generation=1)


def _roundtrip_model(m1, file, cls, nontrivial, txt, generation):
    """write -> read -> compare. The model that comes back is a surrogate-free model too: after a successful first
    generation it is written and read once more and must survive that just the same (generation 2)."""
    from mxlpy import sbml

    try:
        sbml.write(m1, file)
    except Exception as exc:  # noqa: BLE001
        supported = cls == "must"
        if supported:
            return outcome(False, "export-raised-for-supported", symptom=f"export-raised:{type(exc).__name__}", nontrivial=nontrivial,
                           detail=f"{type(exc).__name__}: {exc} | {txt}")
        return outcome(True, "export-refused" if generation == 1 else "roundtrip-equal-second-export-refused", nontrivial=nontrivial)
    try:
        try:
            m2 = sbml.read(file)
        except Exception as exc:  # noqa: BLE001
            return outcome(False, "import-raised", symptom=f"import-raised:{type(exc).__name__}", nontrivial=nontrivial,
                           detail=f"file written but cannot be read back: {type(exc).__name__}: {str(exc)[:200]} | {txt}")
        # names per kind
        ids2 = m2.ids
        for kind, names in (("variable", m1.get_variable_names()), ("parameter", m1.get_parameter_names()),
                            ("derived", list(m1.get_raw_derived())), ("reaction", m1.get_reaction_names())):
            for n in names:
                if n not in ids2:
                    return outcome(False, "name-lost", symptom=f"name-lost:{kind}", nontrivial=nontrivial,
                                   detail=f"{kind} {n!r} is not in the re-imported model (ids: {sorted(ids2)[:12]}) | {txt}")
                k2 = ids2[n]
                ok = (kind in ("variable", "reaction") and k2 == kind) or (kind in ("parameter", "derived") and k2 in ("parameter", "derived"))
                if not ok:
                    return outcome(False, "kind-changed", symptom=f"kind-changed:{kind}->{k2}", nontrivial=nontrivial,
                                   detail=f"{n!r} was a {kind}, came back as {k2} | {txt}")
        ic1 = m1.get_initial_conditions()
        try:
            ic2 = m2.get_initial_conditions()
        except Exception as exc:  # noqa: BLE001
            return outcome(False, "different", symptom=f"different:evaluation-raised:{type(exc).__name__}", nontrivial=nontrivial,
                           detail=f"the re-imported model cannot be evaluated: {type(exc).__name__}: {str(exc)[:200]} | {txt}")
        for v, val in ic1.items():
            if not _close(float(ic2[v]), float(val)):
                return outcome(False, "different", symptom="different:initial-value", nontrivial=nontrivial,
                               detail=f"initial {v}: {ic2[v]} expected {val} | {txt}")
        v1 = m1.get_variable_names()
        helper_bad = None
        for st in STATES:
            s1 = dict(zip(v1, list(st) + [1.5] * len(v1), strict=False))
            s2 = {v: s1.get(v, ic2[v]) for v in m2.get_variable_names()}
            # species amounts kept by the importer follow the concentration (compartment size 1)
            for v in s2:
                if v.endswith("_amount") and v[: -len("_amount")] in s1:
                    s2[v] = s1[v[: -len("_amount")]]
            try:
                a1 = m1.get_args(s1, 0.0)
                r1 = m1.get_right_hand_side(s1, 0.0)
            except Exception:  # noqa: BLE001 - state outside the law's domain
                continue
            try:
                a2 = m2.get_args(s2, 0.0)
                r2 = m2.get_right_hand_side(s2, 0.0)
            except Exception as exc:  # noqa: BLE001
                return outcome(False, "different", symptom=f"different:evaluation-raised:{type(exc).__name__}", nontrivial=nontrivial,
                               detail=f"re-imported model cannot be evaluated at {s1}: {type(exc).__name__}: {exc} | {txt}")
            for n in list(m1.get_raw_derived()) + m1.get_reaction_names():
                if not _close(float(a2[n]), float(a1[n])):
                    what = "flux" if n in m1.get_reaction_names() else "derived"
                    if what == "derived" and n.endswith("_amount") and n[: -len("_amount")] in v1:
                        # the name the importer itself gives to species amounts: remembered, everything else is
                        # still compared so that this difference cannot hide another one
                        helper_bad = helper_bad or outcome(False, "different", symptom="different:derived:amount-helper", nontrivial=nontrivial,
                                                           detail=f"derived {n} at {s1}: {a2[n]} expected {a1[n]} | {txt}")
                        continue
                    return outcome(False, "different", symptom=f"different:{what}", nontrivial=nontrivial,
                                   detail=f"{what} {n} at {s1}: {a2[n]} expected {a1[n]} | {txt}")
            for v in v1:
                if not _close(float(r2[v]), float(r1[v])):
                    return outcome(False, "different", symptom="different:derivative", nontrivial=nontrivial,
                                   detail=f"d{v}/dt at {s1}: {r2[v]} expected {r1[v]} | {txt}")
        if helper_bad is not None:
            return helper_bad
        if generation == 1:
            again = _roundtrip_model(m2, file.with_name(file.stem + "_g2.xml"), "may", nontrivial, "[second generation: the re-imported model written and read again] " + txt, generation=2)
            if not again["ok"]:
                again["symptom"] = f"generation2:{again['symptom']}"
                return again
            if again["cls"] != "roundtrip-equal":
                return again
        return outcome(True, "roundtrip-equal", nontrivial=nontrivial)
    finally:
        try:
            file.unlink()
        except OSError:
            pass


def _escaped_names(case):
    return case.get("family") != "imported" and case["names"] in ("digit", "dot", "dash", "space", "keyword")


def _amount_helper_clash(case):
    # the imported model has derived quantities called <species>_amount exactly for concentration species
    return case.get("family") == "imported" and not case["doc"]["hosu"] and case["doc"]["init"] == "conc"


PREDICATES = {"C08-escaped-names-not-restored": _escaped_names, "C08-pysbml-amount-helper-name-clash": _amount_helper_clash}


def run(ctx):
    laws_module()
    cases = generate(ctx.tier)
    ctx.note(f"{len(cases)} cases ({len(LAWS) + len(BODIES)} rate laws, {len(NAMES)} identifier variants)")
    ctx.evaluate(cases, timeout=120)
    import shutil

    shutil.rmtree(WORK_DIR / "C08", ignore_errors=True)
