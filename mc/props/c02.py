"""C02 - dependency resolution is order-independent; bad graphs are rejected.

Every directed graph (self-loops included) on n components x every declaration order x every
assignment of component kinds, plus a missing-name overlay and a multi-output provider family.
Oracle: graph analysis (cycle / missing set) + the demand-driven reference evaluator.
"""

from __future__ import annotations

import functools
import itertools as it
import re

from mc import expr as X
from mc.core import outcome
from mc.refeval import Ref

ID = "C02"
LEVEL = "exploration"
TECHNIQUE = "bounded-exhaustive enumeration of all dependency digraphs x declaration orders x component kinds"
LEVEL_TEXT = (
    "All digraphs with self-loops on n<=3 components (n<=4 thorough) x all n! declaration orders x all 4^n kind "
    "assignments (derived / reaction / parameter initial assignment / variable initial assignment), a missing-name "
    "overlay (3^n) and a multi-output provider family are built with the real Model; the outcome (values, "
    "MissingDependenciesError with its exact listing, CircularDependencyError, termination) is compared with a graph "
    "analysis and the reference evaluator. Exhaustive within n; larger graphs are not explored."
    " Added: a chain of consumers behind one output of a two-output surrogate in all 120 orders, and chains of "
    "60-320 (thorough 700) components in four declaration orders, closed to a cycle, or with one missing name. "
    ' Edits: every single edit and every ordered pair of edits from {valid shortcut, missing name, cycle, self-loop, cycle through a rate} applied to an already evaluated or a cold model in four declaration orders must give the outcome of a model declared that way.'
    ' Also (quick): every acyclic graph on 4 components in every declaration order; in-tree and fan shapes for 4-6 components.'
)
LEVEL_NOTE = "trusted: mc/refeval.py, graph analysis in this module; prime-weighted affine node functions make any stale or mis-ordered input visible"
RULE = (
    "case = (graph adjacency bits, declaration permutation, kind string, missing overlay) enumerated completely; "
    "non-trivial = the graph has at least one edge or missing name AND (it is cyclic, or incomplete, or the "
    "declaration order is not already a topological order); distinct = distinct case tuples"
)
ASSUMPTIONS = ["graphs with more than 4 components are not explored (small-scope argument in DESIGN.md C02)"]

N, V = X.name, X.num
PRIMES = [2.0, 3.0, 5.0, 7.0, 0.5, 0.25]
CONST = [11.0, 13.0, 17.0, 19.0, 23.0, 29.0]
KINDS = "drpv"  # derived, reaction, parameter IA, variable IA


def node_expr(i, args):
    e = V(CONST[i])
    for a in args:
        w = PRIMES[int(a[1])] if a[0] == "n" else (23.0 if a == "m1" else 29.0)
        e = ["add", e, ["mul", V(w), N(a)]]
    return e


def make_spec(case):
    n = case["n"]
    adj = case["adj"]
    miss = case.get("miss") or [0] * n
    decl = [
        {"kind": "variable", "name": "x", "value": 1.5},
        {"kind": "parameter", "name": "k", "value": 2.0},
    ]
    for i in case["perm"]:
        args = [f"n{j}" for j in range(n) if adj >> (i * n + j) & 1]
        if miss[i] >= 1:
            args.append("m1")
        if miss[i] >= 2:
            args.append("m2")
        e = node_expr(i, args)
        kind = case["kinds"][i]
        name = f"n{i}"
        if kind == "d":
            decl.append({"kind": "derived", "name": name, "args": args, "expr": e})
        elif kind == "r":
            decl.append({"kind": "reaction", "name": name, "args": args, "expr": e, "stoich": {"x": 1}})
        elif kind == "p":
            decl.append({"kind": "parameter", "name": name, "ia": {"args": args, "expr": e}})
        else:
            decl.append({"kind": "variable", "name": name, "ia": {"args": args, "expr": e}})
    return {"decl": decl}


def surr_spec(case):
    """Multi-output provider family."""
    sargs = {"base": ["x"], "deep": ["x"], "chain": ["c0"], "own": ["a"], "loop": ["c1"], "loop3": ["c3"],
             "names-surrogate": ["x"], "names-surrogate-and-missing": ["x"], "surrogate-names-itself": ["s"]}[case["variant"]]
    comps = {
        "s": {"kind": "surrogate", "name": "s", "args": sargs, "outputs": ["a", "b"],
              "exprs": [["add", V(3.0), ["mul", V(2.0), N(sargs[0])]], ["add", V(5.0), ["mul", V(7.0), N(sargs[0])]]],
              "stoich": {"a": {"x": -1.0}}},
        "c0": {"kind": "derived", "name": "c0", "args": ["x"], "expr": ["add", V(1.0), ["mul", V(3.0), N("x")]]},
        "c1": {"kind": "derived", "name": "c1", "args": ["a"], "expr": ["add", V(11.0), ["mul", V(2.0), N("a")]]},
        "c2": {"kind": "derived", "name": "c2", "args": ["b"], "expr": ["add", V(13.0), ["mul", V(3.0), N("b")]]},
        "c3": {"kind": "reaction", "name": "c3", "args": ["a", "b", "c1"],
               "expr": ["add", ["mul", V(5.0), N("a")], ["add", ["mul", V(7.0), N("b")], N("c1")]], "stoich": {"x": 1}},
    }
    if case["variant"] == "deep":
        # a chain of consumers behind one output (c1 <- c4 <- c5) next to a consumer of the other output
        comps["c4"] = {"kind": "derived", "name": "c4", "args": ["c1"], "expr": ["add", V(17.0), ["mul", V(5.0), N("c1")]]}
        comps["c5"] = {"kind": "derived", "name": "c5", "args": ["c4", "b"], "expr": ["add", N("c4"), ["mul", V(0.5), N("b")]]}
    # a surrogate's *name* is not a value: only its outputs are. Components naming it are incomplete.
    if case["variant"] == "names-surrogate":
        comps["c2"] = {"kind": "derived", "name": "c2", "args": ["s", "b"], "expr": ["add", V(13.0), ["mul", V(3.0), N("b")]]}
    elif case["variant"] == "names-surrogate-and-missing":
        comps["c2"] = {"kind": "derived", "name": "c2", "args": ["s", "m1"], "expr": ["add", V(13.0), ["mul", V(3.0), N("m1")]]}
    decl = [{"kind": "variable", "name": "x", "value": 1.5}]
    decl += [comps[c] for c in case["perm"]]
    return {"decl": decl}


def analyse(spec):
    """Return (missing: {component: sorted names}, cyclic: bool) from the spec graph."""
    import networkx as nx

    provided = {"time"}
    comps = []
    for c in spec["decl"]:
        k = c["kind"]
        if k in ("variable", "parameter"):
            provided.add(c["name"])
            if "ia" in c:
                comps.append((c["name"], c["ia"]["args"], [c["name"]]))
        elif k == "surrogate":
            provided.update(c["outputs"])
            comps.append((c["name"], c["args"], c["outputs"]))
        elif k == "data":
            provided.add(c["name"])
        elif k in ("derived", "reaction"):
            provided.add(c["name"])
            comps.append((c["name"], c["args"], [c["name"]]))
    missing = {}
    g = nx.DiGraph()
    prov_by = {}
    for name, _args, outs in comps:
        g.add_node(name)
        for o in outs:
            prov_by[o] = name
    for name, args, _outs in comps:
        m = sorted({a for a in args if a not in provided})
        if m:
            missing[name] = m
        for a in args:
            if a in prov_by:
                g.add_edge(name, prov_by[a])
    cyclic = any(len(scc) > 1 for scc in nx.strongly_connected_components(g)) or any(
        g.has_edge(v, v) for v in g.nodes
    )
    return missing, cyclic


_MSG_LINE = re.compile(r"^\t([^:]+): (\[.*\])$")


def parse_missing(msg):
    out = {}
    for line in msg.splitlines():
        mt = _MSG_LINE.match(line)
        if mt:
            out[mt.group(1)] = sorted(eval(mt.group(2)))  # noqa: S307 - list of str literals
    return out


def _is_topological(case):
    n, adj = case["n"], case["adj"]
    pos = {v: i for i, v in enumerate(case["perm"])}
    for i in range(n):
        for j in range(n):
            if adj >> (i * n + j) & 1 and pos[j] > pos[i]:
                return False
    return True


def close(a, b, tol=1e-12):
    return abs(a - b) <= tol + tol * max(abs(a), abs(b))


def plus_one(a):
    return a + 1.0


def plus_one_2(a, b):
    return a + 1.0 + 0.0 * b


LARGE_ORDERS = ("forward", "reversed", "evens-then-odds", "ends-inward")


def large_order(n, kind):
    idx = list(range(n))
    if kind == "reversed":
        return idx[::-1]
    if kind == "evens-then-odds":
        return idx[::2] + idx[1::2]
    if kind == "ends-inward":
        out = []
        lo, hi = 0, n - 1
        while lo <= hi:
            out.append(hi)
            if lo != hi:
                out.append(lo)
            lo, hi = lo + 1, hi - 1
        return out
    return idx


def check_large(case):
    """Chains far longer than the enumerated graphs: node i = node i-1 + 1 (every 7th node an assignment-defined
    parameter, the last one feeding a reaction), declared in four orders; the same chain closed to a cycle; the same
    chain with one node naming something that does not exist."""
    from mxlpy import InitialAssignment, Model
    from mxlpy.model import CircularDependencyError, MissingDependenciesError

    n, defect = case["n"], case["defect"]
    m = Model()
    m.add_variable("x", 1.5)
    m.add_parameter("k", 2.0)
    for i in large_order(n, case["order"]):
        prev = "k" if i == 0 else f"n{i - 1}"
        args = [prev]
        fn = plus_one
        if defect == "cycle" and i == 0:
            args = [f"n{n - 1}"]
        if defect == "missing" and i == n // 2:
            args, fn = [prev, "ghost"], plus_one_2
        if i % 7 == 3:
            m.add_parameter(f"n{i}", InitialAssignment(fn=fn, args=args))
        else:
            m.add_derived(f"n{i}", fn, args=args)
    m.add_reaction("v", plus_one, args=[f"n{n - 1}"], stoichiometry={"x": 1})
    txt = f"{case}"
    try:
        args = m.get_args()
        rhs = m.get_right_hand_side()
    except MissingDependenciesError as exc:
        if defect == "missing":
            listed = parse_missing(str(exc))
            want = {f"n{n // 2}": ["ghost"]}
            if listed != want:
                return outcome(False, "wrong-listing", symptom="wrong-missing-listing:large", nontrivial=True, detail=f"listed {str(listed)[:200]} expected {want} | {txt}")
            return outcome(True, "rejected-missing", nontrivial=True)
        return outcome(False, "rejected-good-graph" if defect == "none" else "wrong-error", symptom=f"large:{defect}:raised-missing", nontrivial=True, detail=f"{str(exc)[:300]} | {txt}")
    except CircularDependencyError as exc:
        if defect == "cycle":
            return outcome(True, "rejected-circular", nontrivial=True)
        return outcome(False, "rejected-good-graph" if defect == "none" else "wrong-error", symptom=f"large:{defect}:raised-circular", nontrivial=True,
                       detail=f"a chain of {n} components in order {case['order']!r}: {str(exc)[:200]} | {txt}")
    if defect != "none":
        return outcome(False, "numbers-for-bad-graph", symptom="numbers-returned:large", nontrivial=True, detail=txt)
    for i in range(n):
        if not close(float(args[f"n{i}"]), 3.0 + i):
            return outcome(False, "wrong-value", symptom="wrong-value:large", nontrivial=True, detail=f"n{i}={args[f'n{i}']} expected {3.0 + i} | {txt}")
    if not close(float(rhs["x"]), 3.0 + n):
        return outcome(False, "wrong-value", symptom="wrong-value:large", nontrivial=True, detail=f"dx/dt={rhs['x']} expected {3.0 + n} | {txt}")
    return outcome(True, "values-equal", nontrivial=True)


EDITS = {
    # name: (component kind, component, new argument list, expected outcome)
    "valid-shortcut": ("reaction", "v", ["n0"], "values"),
    "valid-derived": ("derived", "n1", ["k"], "values"),
    "missing-in-rate": ("reaction", "v", ["ghost"], "missing"),
    "missing-in-derived": ("derived", "n1", ["ghost"], "missing"),
    "cycle": ("derived", "n0", ["n1"], "circular"),
    "self-loop": ("derived", "n1", ["n1"], "circular"),
    "cycle-through-rate": ("derived", "n0", ["v"], "circular"),
}


def _edit_model(decl):
    from mxlpy import InitialAssignment, Model

    m = Model()
    m.add_variable("x", 1.5)
    m.add_parameter("k", 2.0)
    for name in decl["order"]:
        args = decl["args"][name]
        if name == "v":
            m.add_reaction("v", plus_one, args=args, stoichiometry={"x": 1})
        elif name == "w":
            m.add_parameter("w", InitialAssignment(fn=plus_one, args=args))
        else:
            m.add_derived(name, plus_one, args=args)
    return m


def check_edit(case):
    """The graph is re-examined after an edit of an ALREADY EVALUATED model: a changed argument list is resolved,
    a name that does not exist is reported, a cycle is reported - exactly as for a model declared that way."""
    from mxlpy.model import CircularDependencyError, MissingDependenciesError

    base = {"order": case["order"], "args": {"n0": ["k"], "n1": ["n0"], "v": ["n1"], "w": ["n1"]}}
    m = _edit_model(base)
    if case["warm"]:
        m.get_args()
        m.get_right_hand_side()
    txt = f"{case}"
    current = {k_: list(v_) for k_, v_ in base["args"].items()}
    for step, ename in enumerate(case["edits"]):
        kind, comp, new_args, expect = EDITS[ename]
        if ename == "revert":
            pass
        current[comp] = list(new_args)
        if kind == "reaction":
            m.update_reaction(comp, args=list(new_args))
        else:
            m.update_derived(comp, args=list(new_args))
        # what the graph IS now (an earlier valid edit may have removed the edge a later "cycle" needs)
        known = {"k", "x", "time", *current}
        if any(a not in known for args_ in current.values() for a in args_):
            expect = "missing"
        else:
            def reaches(a, b, seen=()):
                return any(c_ == b or (c_ in current and c_ not in seen and reaches(c_, b, (*seen, c_))) for c_ in current.get(a, []))
            expect = "circular" if any(reaches(n_, n_) for n_ in current) else "values"
        fresh = _edit_model({"order": case["order"], "args": current})
        outs = {}
        for label, mm in (("edited", m), ("fresh", fresh)):
            res = {}
            for qn, q in (("get_args", lambda mm=mm: mm.get_args()), ("get_initial_conditions", lambda mm=mm: mm.get_initial_conditions()),
                          ("get_right_hand_side", lambda mm=mm: mm.get_right_hand_side())):
                try:
                    val = q()
                    res[qn] = ("value", {k_: round(float(v_), 12) for k_, v_ in dict(val).items()})
                except MissingDependenciesError as exc:
                    res[qn] = ("missing", parse_missing(str(exc)))
                except CircularDependencyError:
                    res[qn] = ("circular", None)
                except Exception as exc:  # noqa: BLE001
                    res[qn] = ("other", f"{type(exc).__name__}: {str(exc)[:80]}")
            outs[label] = res
        for qn in outs["fresh"]:
            tag = outs["edited"][qn][0]
            if expect == "values" and tag != "value":
                return outcome(False, "rejected-good-graph", symptom=f"edit:good-graph-rejected:{tag}", nontrivial=True, detail=f"after {case['edits'][: step + 1]}: {qn} gave {outs['edited'][qn]} | {txt}")
            if expect != "values" and tag == "value":
                return outcome(False, "numbers-for-bad-graph", symptom="edit:numbers-returned", nontrivial=True,
                               detail=f"after {case['edits'][: step + 1]} ({expect} expected): {qn} returned numbers {str(outs['edited'][qn][1])[:120]} | {txt}")
            if expect != "values" and tag != expect:
                return outcome(False, "wrong-error", symptom=f"edit:wrong-error:{tag}", nontrivial=True, detail=f"after {case['edits'][: step + 1]}: {qn} gave {outs['edited'][qn]}, expected {expect} | {txt}")
            if outs["edited"][qn] != outs["fresh"][qn]:
                return outcome(False, "differs-from-fresh", symptom="edit:differs-from-model-declared-that-way", nontrivial=True,
                               detail=f"after {case['edits'][: step + 1]}: {qn} edited {str(outs['edited'][qn])[:150]} fresh {str(outs['fresh'][qn])[:150]} | {txt}")
        # back to the valid arguments before the next edit
        if expect != "values":
            current[comp] = list(base["args"][comp])
            (m.update_reaction if kind == "reaction" else m.update_derived)(comp, args=list(base["args"][comp]))
    return outcome(True, "edits-re-examined", nontrivial=True)


def check(case):
    from mxlpy.model import CircularDependencyError, MissingDependenciesError

    from mc.spec import build

    if case.get("family") == "edit":
        return check_edit(case)
    if case.get("family") == "large":
        return check_large(case)

    if case.get("family") == "surr":
        spec = surr_spec(case)
        nontrivial = True
    else:
        spec = make_spec(case)
        has_edges = case["adj"] != 0 or any(case.get("miss") or [])
        nontrivial = has_edges
    missing, cyclic = analyse(spec)
    if case.get("family") != "surr" and not missing and not cyclic and _is_topological(case):
        nontrivial = False
    m = build(spec)
    queries = {
        "get_args": lambda: m.get_args(),
        "get_initial_conditions": lambda: m.get_initial_conditions(),
        "get_right_hand_side": lambda: m.get_right_hand_side(),
    }
    results = {}
    for qn, q in queries.items():
        try:
            results[qn] = ("value", q())
        except MissingDependenciesError as exc:
            results[qn] = ("missing", str(exc))
        except CircularDependencyError as exc:
            results[qn] = ("circular", str(exc))
        except Exception as exc:  # any other exception type
            results[qn] = ("other", f"{type(exc).__name__}: {exc}")

    if missing or cyclic:
        allowed = set()
        if missing:
            allowed.add("missing")
        if cyclic:
            allowed.add("circular")
        for qn, (tag, payload) in results.items():
            if tag == "value":
                return outcome(False, "numbers-for-bad-graph", symptom="numbers-returned", nontrivial=nontrivial,
                               detail=f"{qn} returned numbers for a graph with missing={missing} cyclic={cyclic}")
            if tag not in allowed:
                sym = "wrong-error:" + (payload.split(":")[0] if tag == "other" else tag)
                return outcome(False, "wrong-error", symptom=sym, nontrivial=nontrivial,
                               detail=f"{qn}: expected {sorted(allowed)} got {tag}: {payload[:200]}")
            if tag == "missing":
                listed = parse_missing(payload)
                if listed != missing:
                    return outcome(False, "wrong-listing", symptom="wrong-missing-listing", nontrivial=nontrivial,
                                   detail=f"{qn}: listed {listed} expected {missing}")
        cls = "rejected-missing" if missing and not cyclic else ("rejected-circular" if cyclic and not missing else "rejected-both")
        return outcome(True, cls, nontrivial=nontrivial)

    # acyclic and complete: values
    ref = Ref(spec)
    for qn, (tag, payload) in results.items():
        if tag != "value":
            return outcome(False, "rejected-good-graph", symptom=f"good-graph-rejected:{tag}", nontrivial=nontrivial,
                           detail=f"{qn}: {payload[:300]}")
    init = ref.init_values()
    args = results["get_args"][1]
    for name, val in init.items():
        if name not in args.index:
            return outcome(False, "wrong-names", symptom="name-missing-in-args", nontrivial=nontrivial, detail=name)
        if not close(float(args[name]), val):
            return outcome(False, "wrong-value", symptom="wrong-value:get_args", nontrivial=nontrivial,
                           detail=f"get_args()[{name}]={args[name]} expected {val}")
    ic = results["get_initial_conditions"][1]
    for v, val in ref.initial_conditions().items():
        if not close(float(ic[v]), val):
            return outcome(False, "wrong-value", symptom="wrong-value:get_initial_conditions", nontrivial=nontrivial,
                           detail=f"initial[{v}]={ic[v]} expected {val}")
    rhs = results["get_right_hand_side"][1]
    exp = ref.rhs(ref.initial_conditions(), 0.0)
    for v in ref.var_names:
        if not close(float(rhs[v]), exp[v]):
            return outcome(False, "wrong-value", symptom="wrong-value:get_right_hand_side", nontrivial=nontrivial,
                           detail=f"rhs[{v}]={rhs[v]} expected {exp[v]}")
    # a supplied state different from the initial one
    state = {v: 0.25 * (i + 2) for i, v in enumerate(ref.var_names)}
    a2 = m.get_args(state, 1.5)
    e2 = ref.all_values(state, 1.5)
    for name, val in e2.items():
        if not close(float(a2[name]), val):
            return outcome(False, "wrong-value", symptom="wrong-value:get_args-state", nontrivial=nontrivial,
                           detail=f"get_args(state)[{name}]={a2[name]} expected {val}")
    r2 = m.get_right_hand_side(state, 1.5)
    x2 = ref.rhs(state, 1.5)
    for v in ref.var_names:
        if not close(float(r2[v]), x2[v]):
            return outcome(False, "wrong-value", symptom="wrong-value:rhs-state", nontrivial=nontrivial,
                           detail=f"rhs(state)[{v}]={r2[v]} expected {x2[v]}")
    return outcome(True, "values-equal", nontrivial=nontrivial)


def _acyclic(n, adj):
    left = set(range(n))
    while left:
        free = [i for i in left if not any(adj >> (i * n + j) & 1 for j in left)]
        if not free:
            return False
        left.difference_update(free)
    return True


def generate(tier):
    """Yield batches of cases (lists), simplest first."""
    cases = []
    ns = [1, 2, 3]
    for n in ns:
        perms = [list(p) for p in it.permutations(range(n))]
        kind_sets = ["".join(k) for k in it.product(KINDS, repeat=n)]
        for adj in range(2 ** (n * n)):
            for perm in perms:
                for kinds in kind_sets:
                    cases.append({"n": n, "adj": adj, "perm": perm, "kinds": kinds})
        # missing-name overlay, all nodes derived (n<=3) and one mixed kind pattern
        for adj in range(2 ** (n * n)):
            for perm in perms:
                for miss in it.product([0, 1, 2], repeat=n):
                    if not any(miss):
                        continue
                    cases.append({"n": n, "adj": adj, "perm": perm, "kinds": "d" * n, "miss": list(miss)})
    if tier != "thorough":
        # every ACYCLIC graph on 4 components in every declaration order (quick; thorough has all 65536 graphs):
        # e.g. two consumers waiting for the same provider that is declared after them and itself waits for a third
        n = 4
        perms = [list(p) for p in it.permutations(range(n))]
        for adj in range(2 ** (n * n)):
            if not _acyclic(n, adj):
                continue
            for perm in perms:
                for kinds in ("dddd", "drpv"):
                    cases.append({"n": n, "adj": adj, "perm": perm, "kinds": kinds})
    if tier == "thorough":
        n = 4
        perms = [list(p) for p in it.permutations(range(n))]
        for adj in range(2 ** (n * n)):
            for perm in perms:
                for kinds in ("dddd", "drpv", "vprd"):
                    cases.append({"n": n, "adj": adj, "perm": perm, "kinds": kinds})
            if len(cases) >= 300000:
                yield cases
                cases = []
    # longer structures (n = 4..6) in EVERY declaration order: the retry queue's iteration budget and its
    # re-enqueue logic are exercised by long reversed chains, which n <= 3 cannot contain
    for n in (4, 5, 6):
        chain = sum(1 << (i * n + (i + 1)) for i in range(n - 1))                      # i names i+1
        tree = sum(1 << (i * n + j) for i in range(n) for j in (2 * i + 1, 2 * i + 2) if j < n)
        cross = chain | (1 << (0 * n + (n - 1)))                                         # chain + shortcut edge
        cyc = chain | (1 << ((n - 1) * n + 0))                                           # n-cycle
        intree = sum(1 << (i * n + (i - 1) // 2) for i in range(1, n))                   # everyone names its parent
        fan = sum(1 << (i * n + 1) for i in range(2, n)) | (1 << (1 * n + 0))            # all name n1, n1 names n0
        for adj in (chain, tree, cross, cyc, intree, fan):
            for perm in it.permutations(range(n)):
                cases.append({"n": n, "adj": adj, "perm": list(perm), "kinds": ("drpv" * 2)[:n] if n % 2 else "d" * n})
    for variant in ("base", "chain", "own", "loop", "loop3", "names-surrogate", "names-surrogate-and-missing", "surrogate-names-itself"):
        for perm in it.permutations(["s", "c0", "c1", "c2", "c3"]):
            cases.append({"family": "surr", "variant": variant, "perm": list(perm)})
    for perm in it.permutations(["s", "c1", "c2", "c4", "c5"]):
        cases.append({"family": "surr", "variant": "deep", "perm": list(perm)})
    yield cases


def _self_dependency(case):
    """Input predicate: some component names itself (or a surrogate consumes its own output)."""
    if case.get("family") in ("large", "edit"):
        return False
    if case.get("family") == "surr":
        return case["variant"] == "own"
    n, adj = case["n"], case["adj"]
    return any(adj >> (i * n + i) & 1 for i in range(n))


PREDICATES = {"C02-self-loop-keyerror": _self_dependency}


def run(ctx):
    total = 0
    for batch in generate(ctx.tier):
        total += len(batch)
        ctx.evaluate(batch, chunk=1000, timeout=60)  # per case; generous, so that a loaded machine cannot turn a slow case into a "no termination"
    sizes = (60, 150, 320) if ctx.tier == "quick" else (60, 150, 320, 700)
    large = [{"family": "large", "n": n, "order": order, "defect": defect} for n in sizes for order in LARGE_ORDERS for defect in ("none", "cycle", "missing")]
    total += len(large)
    ctx.evaluate(large, chunk=1, timeout=600)
    # edits of an already evaluated model: every single edit and every ordered pair, in 4 declaration orders
    edits = []
    for order in (["n0", "n1", "v", "w"], ["w", "v", "n1", "n0"], ["v", "n0", "w", "n1"], ["n1", "w", "n0", "v"]):
        for warm in (True, False):
            for e1 in EDITS:
                edits.append({"family": "edit", "order": order, "warm": warm, "edits": [e1]})
                for e2 in EDITS:
                    if e2 != e1:
                        edits.append({"family": "edit", "order": order, "warm": warm, "edits": [e1, e2]})
    total += len(edits)
    ctx.evaluate(edits, timeout=60)
    ctx.note(f"{total} cases (graphs x orders x kinds + overlays + provider family + {len(large)} chains of {sizes} components)")
    ctx.coverage_extra["max_components"] = 4 if ctx.tier == "thorough" else 3
    ctx.coverage_extra["large_chain_sizes"] = list(sizes)
