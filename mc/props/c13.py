"""C13 - initial assignments resolve once at t=0; derived parameters are state-free.

All acyclic combinations of a bounded menu of dependency patterns between an assignment-defined
parameter q, an assignment-defined variable w, three derived quantities, a reaction and a computed
coefficient x 2 declaration orders x supplied states/times. Oracle: reachability classification and
the reference evaluator at t=0 / at the supplied state.
"""

from __future__ import annotations

import itertools as it

from mc import expr as X
from mc.core import outcome
from mc.refeval import Ref, RefCycle, RefMissing

ID = "C13"
LEVEL = "exploration"
TECHNIQUE = "bounded-exhaustive enumeration of initial-assignment / derived dependency patterns x declaration orders x states against a reachability + demand-driven reference"
LEVEL_TEXT = (
    "Every acyclic, complete combination of argument lists for an assignment-defined parameter, an assignment-defined "
    "variable, derived quantities d1..d3, the rate of a reaction and a computed coefficient (menus of 6/6/5/4/3/3/4 "
    "entries) is built in 2 declaration orders; initial conditions, assignment-defined parameter values, Simulator.y0, "
    "the derived-parameter / derived-variable classification and all values at 4 supplied (state, time) points are compared "
    "with a reachability analysis and the reference evaluator."
    " Added: coefficient-table reads between states, a simulator override that must stay local, a simulation "
    "whose result views are read, and then edits of a rate law, a derived function, a parameter and an initial "
    "value in turn - everything resolved at t=0 must follow the edited description. "
    ' Also: make_variable_static after a simulation, and the time-course form of every query with its columns reversed.'
)
LEVEL_NOTE = "trusted: mc/refeval.py (self-tested); prime-weighted affine functions make every mis-resolution visible"
RULE = (
    "case = (argument list per component, declaration order); all combinations whose dependency graph is complete and "
    "acyclic. Non-trivial = at least one initial assignment is present; distinct = distinct tuples."
)
ASSUMPTIONS = ["menu-bounded dependency patterns; affine component functions"]

N, V = X.name, X.num
Q_ARGS = [None, ["p"], ["x"], ["d1"], ["v"], ["w"]]
W_ARGS = [None, ["p"], ["x"], ["q"], ["d2"], ["v"]]
D1_ARGS = [["p"], ["x"], ["q"], ["w"], ["time"]]
D2_ARGS = [["d1"], ["p", "q"], ["x", "d1"], ["v"]]
D3_ARGS = [None, ["d2"], ["d1", "p"]]
V_ARGS = [["x", "p"], ["x", "q"], ["x", "d1"]]
COEF = [None, ["p"], ["q"], ["d1"], ["w"], ["x"], ["w", "p"]]
WEIGHT = {"p": 2.0, "x": 3.0, "q": 5.0, "w": 7.0, "d1": 11.0, "d2": 13.0, "d3": 17.0, "v": 19.0, "time": 23.0, "y": 29.0}
CONST = {"q": 0.5, "w": 0.25, "d1": 1.5, "d2": 2.5, "d3": 3.5, "v": 0.75, "coef": 1.25}


def affine(name, args):
    e = V(CONST[name])
    for a in args:
        e = ["add", e, ["mul", V(WEIGHT[a] / 8.0), N(a)]]
    return e


def make_spec(c):
    decl = [
        {"kind": "variable", "name": "x", "value": 1.5},
        {"kind": "variable", "name": "y", "value": 0.5},
        {"kind": "parameter", "name": "p", "value": 2.0},
    ]
    comps = []
    if c["q"] is not None:
        comps.append({"kind": "parameter", "name": "q", "ia": {"args": c["q"], "expr": affine("q", c["q"])}})
    if c["w"] is not None:
        comps.append({"kind": "variable", "name": "w", "ia": {"args": c["w"], "expr": affine("w", c["w"])}})
    comps.append({"kind": "derived", "name": "d1", "args": c["d1"], "expr": affine("d1", c["d1"])})
    comps.append({"kind": "derived", "name": "d2", "args": c["d2"], "expr": affine("d2", c["d2"])})
    if c["d3"] is not None:
        comps.append({"kind": "derived", "name": "d3", "args": c["d3"], "expr": affine("d3", c["d3"])})
    st = {"x": -1, "y": 1}
    if c["coef"] is not None:
        st["y"] = {"args": c["coef"], "expr": affine("coef", c["coef"])}
    if c["w"] is not None:
        st["w"] = 0.5
    comps.append({"kind": "reaction", "name": "v", "args": c["v"], "expr": affine("v", c["v"]), "stoich": st})
    if c["order"] == "rev":
        comps.reverse()
    return {"decl": decl + comps}


def generate(tier):
    cases = []
    for q, w, d1, d2, d3, v, coef, order in it.product(Q_ARGS, W_ARGS, D1_ARGS, D2_ARGS, D3_ARGS, V_ARGS, COEF, ("dep", "rev")):
        c = {"q": q, "w": w, "d1": d1, "d2": d2, "d3": d3, "v": v, "coef": coef, "order": order}
        try:
            r = Ref(make_spec(c))
            r.init_values()
            r.rhs(r.initial_conditions(), 0.0)  # also resolves the computed coefficient
        except (RefCycle, RefMissing):
            continue
        cases.append(c)
    if tier == "quick":
        cases = [c for c in cases if c["d3"] != ["d1", "p"] or c["coef"] is None]
    return cases


def _close(a, b):
    return abs(a - b) <= 1e-12 + 1e-12 * max(abs(a), abs(b))


def check(case):
    from mxlpy import Simulator

    from mc.spec import build

    spec = make_spec(case)
    ref = Ref(spec)
    nt = case["q"] is not None or case["w"] is not None
    txt = f"{case}"
    try:
        m = build(spec)
        init = ref.init_values()
        ic = m.get_initial_conditions()
        for v, val in ref.initial_conditions().items():
            if not _close(float(ic[v]), val):
                return outcome(False, "wrong-initial", symptom="wrong-initial-condition", nontrivial=nt, detail=f"{v}: {ic[v]} expected {val} | {txt}")
        y0 = Simulator(m).y0
        for v, val in ref.initial_conditions().items():
            if not _close(float(y0[v]), val):
                return outcome(False, "wrong-initial", symptom="wrong-simulator-y0", nontrivial=nt, detail=f"y0[{v}]={y0[v]} expected {val} | {txt}")
        # overriding a start value on one simulator (before it has simulated anything) is local to it
        s1 = Simulator(m)
        s1.update_variable(ref.var_names[0], 100.0)
        s1.update_variables({ref.var_names[-1]: 50.0})
        ic_after = m.get_initial_conditions()
        y0_second = Simulator(m).y0
        for v, val in ref.initial_conditions().items():
            if not _close(float(ic_after[v]), val) or not _close(float(y0_second[v]), val):
                return outcome(False, "wrong-initial", symptom="simulator-override-leaks-into-model", nontrivial=nt,
                               detail=f"after Simulator(m).update_variable: model initial {v}={ic_after[v]}, new simulator starts at {y0_second[v]}, expected {val} | {txt}")
        a0 = m.get_args()
        for n, val in init.items():
            if not _close(float(a0[n]), val):
                return outcome(False, "wrong-value", symptom="wrong-value-at-t0", nontrivial=nt, detail=f"{n}: {a0[n]} expected {val} | {txt}")
        # classification
        derived = [c["name"] for c in spec["decl"] if c["kind"] == "derived"]
        exp_par = sorted(d for d in derived if ref.is_parameter_like(d))
        exp_var = sorted(d for d in derived if d not in exp_par)
        got_par = sorted(m.get_derived_parameter_names())
        got_var = sorted(m.get_derived_variable_names())
        if got_par != exp_par or got_var != exp_var:
            return outcome(False, "wrong-classification", symptom="wrong-classification", nontrivial=nt,
                           detail=f"derived parameters {got_par} expected {exp_par}; derived variables {got_var} expected {exp_var} | {txt}")
        var_names = ref.var_names
        for k, t in enumerate((0.0, 2.5, 0.0, 4.0)):
            state = {v: 0.4 + 0.7 * ((i + k) % 3) + 0.1 * k for i, v in enumerate(var_names)}
            exp = ref.all_values(state, t)
            got = m.get_args(state, t)
            for n, val in exp.items():
                if not _close(float(got[n]), val):
                    kind = "frozen" if (n == "q" or n in exp_par) else "recomputed"
                    return outcome(False, "wrong-value", symptom=f"wrong-value:{kind}", nontrivial=nt,
                                   detail=f"{n} at {state}, t={t}: {got[n]} expected {val} | {txt}")
            # the time-course form with the frame's columns in reverse order: columns are names, not positions
            import pandas as pd

            if k == 1:
                frame = pd.DataFrame({v: [state[v]] for v in reversed(var_names)}, index=[t])
                atc = m.get_args_time_course(frame)
                for n, val in exp.items():
                    if n in atc.columns and not _close(float(atc.loc[t, n]), val):
                        return outcome(False, "wrong-value", symptom="wrong-value:time-course-form", nontrivial=nt,
                                       detail=f"get_args_time_course with columns {list(frame.columns)}: {n} at t={t} is {atc.loc[t, n]} expected {val} | {txt}")
            # reading the coefficient table at this state must not freeze anything for the next one
            if k <= 1:
                m.get_stoichiometries(state, t)
                m.get_stoichiometries_of_variable(var_names[-1], state, t)
            rhs = m.get_right_hand_side(state, t)
            er = ref.rhs(state, t)
            for v in var_names:
                if not _close(float(rhs[v]), er[v]):
                    return outcome(False, "wrong-value", symptom="wrong-derivative", nontrivial=nt,
                                   detail=f"d{v}/dt at {state}, t={t}: {rhs[v]} expected {er[v]} | {txt}")
            call = m(t, [state[v] for v in var_names])
            for v, g in zip(var_names, call, strict=True):
                if not _close(float(g), er[v]):
                    return outcome(False, "wrong-value", symptom="wrong-derivative:call", nontrivial=nt, detail=f"{v}: {g} expected {er[v]} | {txt}")
        # "after everything they name" holds for the model's *current* content: the model has been queried (its
        # resolved values exist); now edit, one after the other, a rate law, a derived quantity's function, a
        # parameter value and a declared initial value, and compare with the reference of the edited description
        import copy

        from mc import expr as X_

        # ... and used: a short simulation whose result views are read (they evaluate the model)
        try:
            res0 = Simulator(m).simulate(0.25, steps=2).get_result().unwrap_or_err()
            res0.variables  # noqa: B018
            res0.fluxes  # noqa: B018
        except Exception:  # noqa: BLE001 - whether the integration succeeds is not the subject here
            pass
        spec2 = copy.deepcopy(spec)
        by_name = {c["name"]: c for c in spec2["decl"]}
        edits = ["rate-law", "derived-function", "parameter-value", "initial-value"]
        if case["w"] is not None:
            edits.append("make-static")  # the assignment-defined variable w becomes an assignment-defined PARAMETER
        for edit in edits:
            if edit == "rate-law":
                by_name["v"]["expr"] = ["add", by_name["v"]["expr"], V(1.0)]
                m.update_reaction("v", fn=X_.make_fn(by_name["v"]["args"], by_name["v"]["expr"], "r_v2"))
            elif edit == "derived-function":
                by_name["d1"]["expr"] = ["add", by_name["d1"]["expr"], V(2.0)]
                m.update_derived("d1", fn=X_.make_fn(by_name["d1"]["args"], by_name["d1"]["expr"], "d_d1b"))
            elif edit == "parameter-value":
                by_name["p"]["value"] = 3.0
                m.update_parameter("p", 3.0)
            elif edit == "make-static":
                wdecl = by_name["w"]
                wdecl["kind"] = "parameter"
                by_name["v"]["stoich"].pop("w", None)
                m.make_variable_static("w")
                var_names = [v for v in var_names if v != "w"]
            else:
                by_name["x"]["value"] = 2.25
                m.update_variable("x", 2.25)
            ref2 = Ref(spec2)
            init2 = ref2.init_values()
            ic2 = m.get_initial_conditions()
            y02 = Simulator(m).y0
            for v, val in ref2.initial_conditions().items():
                if not _close(float(ic2[v]), val) or not _close(float(y02[v]), val):
                    return outcome(False, "stale", symptom=f"stale-initial-condition-after:{edit}", nontrivial=nt,
                                   detail=f"after editing the {edit}: initial {v}={ic2[v]}, simulator starts at {y02[v]}, expected {val} | {txt}")
            a2 = m.get_args()
            for n, val in init2.items():
                if not _close(float(a2[n]), val):
                    return outcome(False, "stale", symptom=f"stale-value-at-t0-after:{edit}", nontrivial=nt,
                                   detail=f"after editing the {edit}: {n}={a2[n]} expected {val} | {txt}")
            state = {v: 0.9 + 0.3 * i for i, v in enumerate(var_names)}
            exp = ref2.all_values(state, 1.5)
            got = m.get_args(state, 1.5)
            for n, val in exp.items():
                if not _close(float(got[n]), val):
                    return outcome(False, "stale", symptom=f"stale-value-after:{edit}", nontrivial=nt,
                                   detail=f"after editing the {edit}: {n} at {state}, t=1.5: {got[n]} expected {val} | {txt}")
    except Exception as exc:  # noqa: BLE001
        return outcome(False, "exception", symptom=f"exception:{type(exc).__name__}", nontrivial=nt, detail=f"{type(exc).__name__}: {exc} | {txt}")
    return outcome(True, "equal", nontrivial=nt)


PREDICATES = {}


def run(ctx):
    cases = generate(ctx.tier)
    ctx.note(f"{len(cases)} acyclic complete dependency patterns (incl. 2 declaration orders)")
    ctx.evaluate(cases, timeout=60)
