"""Tiny expression language shared by the specs.

An expression is a nested list (JSON-able):
    ["num", 2.0] | ["name", "x"] | [op, a, b] for op in add sub mul div pow
    ["neg", a] | ["if", cond, a, b] | [cmp, a, b] for cmp in lt le gt ge eq ne
    [fn, a] for fn in exp log sqrt abs sin ; ["min", a, b] ["max", a, b]
"""

from __future__ import annotations

import math

BIN = {"add": "+", "sub": "-", "mul": "*", "div": "/", "pow": "**"}
CMP = {"lt": "<", "le": "<=", "gt": ">", "ge": ">=", "eq": "==", "ne": "!="}
FN1 = {"exp": "math.exp", "log": "math.log", "sqrt": "math.sqrt", "abs": "abs", "sin": "math.sin"}
FN2 = {"min": "min", "max": "max"}


def num(v):
    return ["num", v]


def name(n):
    return ["name", n]


def ev(e, env):
    t = e[0]
    if t == "num":
        return e[1]
    if t == "name":
        return env[e[1]]
    if t in BIN:
        a, b = ev(e[1], env), ev(e[2], env)
        if t == "add":
            return a + b
        if t == "sub":
            return a - b
        if t == "mul":
            return a * b
        if t == "div":
            return a / b
        return a**b
    if t == "neg":
        return -ev(e[1], env)
    if t == "if":
        return ev(e[2], env) if ev(e[1], env) else ev(e[3], env)
    if t in CMP:
        a, b = ev(e[1], env), ev(e[2], env)
        return {
            "lt": a < b,
            "le": a <= b,
            "gt": a > b,
            "ge": a >= b,
            "eq": a == b,
            "ne": a != b,
        }[t]
    if t in FN1:
        a = ev(e[1], env)
        return {"exp": math.exp, "log": math.log, "sqrt": math.sqrt, "abs": abs, "sin": math.sin}[t](a)
    if t in FN2:
        a, b = ev(e[1], env), ev(e[2], env)
        return min(a, b) if t == "min" else max(a, b)
    if t == "idx":
        return ev(e[1], env)[e[2]]
    raise ValueError(f"unknown expression {e!r}")


def names(e, acc=None):
    acc = set() if acc is None else acc
    if e[0] == "name":
        acc.add(e[1])
    elif e[0] == "idx":
        names(e[1], acc)
    elif e[0] != "num":
        for c in e[1:]:
            names(c, acc)
    return acc


def src(e, ren=None):
    """Python source text of an expression (ren: model name -> python identifier)."""
    t = e[0]
    if t == "num":
        return repr(e[1])
    if t == "name":
        return (ren or {}).get(e[1], e[1])
    if t in BIN:
        return f"({src(e[1], ren)} {BIN[t]} {src(e[2], ren)})"
    if t == "neg":
        return f"(-{src(e[1], ren)})"
    if t == "if":
        return f"({src(e[2], ren)} if {src(e[1], ren)} else {src(e[3], ren)})"
    if t in CMP:
        return f"({src(e[1], ren)} {CMP[t]} {src(e[2], ren)})"
    if t in FN1:
        return f"{FN1[t]}({src(e[1], ren)})"
    if t in FN2:
        return f"{FN2[t]}({src(e[1], ren)}, {src(e[2], ren)})"
    if t == "idx":
        return f"{src(e[1], ren)}[{e[2]!r}]"
    raise ValueError(f"unknown expression {e!r}")


_FN_CACHE = {}


def make_fn(args, e, fname="f"):
    """A real Python function with exactly the positional parameters p0..pn (exec'd)."""
    key = (tuple(args), repr(e), fname)
    if key in _FN_CACHE:
        return _FN_CACHE[key]
    fn = _make_fn(args, e, fname)
    if len(_FN_CACHE) < 200000:
        _FN_CACHE[key] = fn
    return fn


def _make_fn(args, e, fname="f"):
    ren = {a: f"p{i}" for i, a in enumerate(args)}
    # repeated model arguments get distinct python parameters; the first occurrence is used
    params = [f"p{i}" for i in range(len(args))]
    ren = {}
    for i, a in enumerate(args):
        ren.setdefault(a, f"p{i}")
    code = f"def {fname}({', '.join(params)}):\n    return {src(e, ren)}\n"
    ns = {"math": math}
    exec(code, ns)  # noqa: S102
    return ns[fname]
