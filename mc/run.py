"""CLI: python -m mc.run <ID> --tier quick|thorough [--replay path]

exit 0  the property held on everything explored (KNOWN-FINDING lines allowed)
exit 1  "VIOLATION property=<id> replay=<path>" printed for at least one case
exit 2  harness error (machinery problem; nothing it reports is a verdict)
"""

from __future__ import annotations

import argparse
import importlib
import json
import os
import sys
import traceback
from pathlib import Path

ROOT = Path(__file__).resolve().parent.parent


def _reexec_with_env():
    """Own the interpreter-level nondeterminism (hash seed) - and nothing else: the library has to be run the way its
    users run it. In particular bytecode caching stays ON (PYTHONDONTWRITEBYTECODE is removed if the caller set it):
    with it switched off, a stale-bytecode defect of sbml.read was invisible for a long time (DESIGN.md, Appendix B)."""
    want = {"PYTHONHASHSEED": "0", "MXLPY_VERIF": "1", "TQDM_DISABLE": "1"}
    if all(os.environ.get(k) == v for k, v in want.items()) and not os.environ.get("PYTHONDONTWRITEBYTECODE"):
        return
    env = dict(os.environ)
    env.update(want)
    env.pop("PYTHONDONTWRITEBYTECODE", None)
    os.execve(sys.executable, [sys.executable, "-m", "mc.run", *sys.argv[1:]], env)


def main():
    _reexec_with_env()
    ap = argparse.ArgumentParser()
    ap.add_argument("pid", nargs="?")
    ap.add_argument("--tier", default=os.environ.get("VERIF_TIER", "quick"))
    ap.add_argument("--replay")
    ap.add_argument("--quiet", action="store_true")
    ap.add_argument("--selftest", action="store_true")
    a = ap.parse_args()
    sys.excepthook = sys.__excepthook__
    os.chdir(ROOT)

    from mc import core

    if a.selftest:
        from mc import selftest

        return selftest.main()

    seed = int(os.environ.get("VERIF_SEED", "0") or 0)
    tier = a.tier if a.tier in ("quick", "thorough") else "quick"
    module = importlib.import_module(f"mc.props.{a.pid.lower()}")

    if a.replay:
        payload = json.loads(Path(a.replay).read_text())
        case = payload["case"]
        replay_check = getattr(module, "replay", None) or module.check
        res = replay_check(case)
        if not a.quiet:
            print(json.dumps({"case": case, "outcome": res}, indent=1, default=core._json_default))
        if res["ok"]:
            print(f"REPLAY property={module.ID} holds on this case")
            return 0
        print(f"REPLAY property={module.ID} symptom={res.get('symptom')} detail={res.get('detail')[:800]}")
        return 1

    ctx = core.Context(module, tier, seed)
    try:
        try:
            module.run(ctx)
        except core.HarnessError:
            traceback.print_exc()
            return 2
        except Exception as exc:  # noqa: BLE001
            # an exception raised INSIDE the library while the exploration itself was being set up (building an
            # initial state, a clean reference run) means the unchanged scenario no longer works: that is a
            # failure of the property's preconditions on this tree, not a bug of the harness
            tb = traceback.extract_tb(exc.__traceback__)
            lib = [fr for fr in tb if "/mxlpy/" in fr.filename]
            if not lib:
                raise
            ctx.record(
                {"setup": True, "where": f"{lib[0].name} -> {lib[-1].name}"},
                core.outcome(False, "setup-failed", symptom=f"unexpected-exception-in-setup:{type(exc).__name__}:{lib[-1].name}", nontrivial=True,
                             detail=f"{type(exc).__name__}: {str(exc)[:300]} raised in {lib[-1].filename.split('/mxlpy/')[-1]}:{lib[-1].lineno} while the exploration was set up"),
            )
        entries, by_entry, unexplained = core.attribute(module, ctx.failures)
        known_report = {}
        for e in entries:
            hits = by_entry[e["id"]]
            known_report[e["id"]] = {
                "cases": len(hits),
                "what": e["what"],
                "example": hits[0][0] if hits else None,
            }
            if hits:
                print(
                    f"KNOWN-FINDING: property={module.ID} {e['id']} {e['what']} ({len(hits)} cases)"
                )
        violations = 0
        shown = 0
        seen_sym = {}
        for case, res in unexplained:
            violations += 1
            # one replay per (symptom, first 8) to keep output readable
            k = res.get("symptom")
            seen_sym[k] = seen_sym.get(k, 0) + 1
            if seen_sym[k] > 2 or shown >= 60:
                continue
            shown += 1
            path = core.write_replay(module.ID, case, res)
            if shown <= 3 and not os.environ.get("VERIF_NO_CONFIRM"):
                rc, out = core.confirm_in_subprocess(module.ID, path)
                if rc != 1:
                    print(
                        f"HARNESS-NONDETERMINISM property={module.ID} replay={path} rc={rc}\n{out}",
                        file=sys.stderr,
                    )
                    core.write_evidence(ctx, violations, known_report)
                    return 2
            print(f"VIOLATION property={module.ID} replay={path}")
            print(f"   symptom={res.get('symptom')} {res.get('detail', '')[:600]}")
        if violations > shown:
            print(f"   ... {violations - shown} further failing cases not written out")
        if violations:
            print(f"[{module.ID}] unexplained symptoms: {dict(sorted(seen_sym.items(), key=lambda kv: str(kv[0])))}")
        if any(c.get("setup") for c, _r in unexplained):
            # nothing was explored: there is no coverage to report (the evidence file of the last full run is left alone)
            print(f"[{module.ID}] tier={tier} seed={seed} exploration could not be set up; violations={violations}")
            return 1
        ev = core.write_evidence(ctx, violations, known_report)
        cov = ev["coverage"]
        print(
            f"[{module.ID}] tier={tier} seed={seed} evaluations={cov['evaluations']} "
            f"distinct_nontrivial={cov['distinct_nontrivial']} classes={cov['verdict_classes']} "
            f"violations={violations} wall={ev['wall_s']}s"
        )
        return 1 if violations else 0
    except core.HarnessError:
        traceback.print_exc()
        return 2
    finally:
        ctx.cleanup()


if __name__ == "__main__":
    try:
        rc = main()
    except SystemExit:
        raise
    except BaseException:
        traceback.print_exc()
        rc = 2
    sys.exit(rc)
