"""setup_cmd: import everything, self-test the reference evaluator, discover tools. Builds nothing."""

from __future__ import annotations

import importlib
import json
import shutil
import sys
from pathlib import Path

ROOT = Path(__file__).resolve().parent.parent


def main():
    import mxlpy  # noqa: F401

    from mc import refeval

    refeval.selftest()
    src = Path(mxlpy.__file__).resolve()
    print(f"mxlpy imported from {src}")
    if "/repo/src/" not in str(src):
        print("WARNING: mxlpy is not imported from /repo/src (checks would not see the working tree)")
        return 2
    man = json.loads((ROOT / "MANIFEST.json").read_text())
    for chk in man["checks"]:
        importlib.import_module(f"mc.props.{chk['property_id'].lower()}")
    for tool in ("node", "rustc"):
        from mc import tools

        print(f"{tool}: {tools.find(tool)}")
    json.loads((ROOT / "known_findings.json").read_text())
    print("selftest ok")
    return 0
