"""Build a real mxlpy.Model from a spec through the public add_* API, in declaration order."""

from __future__ import annotations

import pandas as pd

from mc import expr as X


def _fn(args, e, fname):
    return X.make_fn(args, e, fname)


def _coef(coef, rname, var):
    from mxlpy import Derived

    if isinstance(coef, (int, float, str)):
        return coef
    return Derived(fn=_fn(coef["args"], coef["expr"], f"st_{rname}_{var}"), args=list(coef["args"]))


def _ia(ia, name):
    from mxlpy import InitialAssignment

    return InitialAssignment(fn=_fn(ia["args"], ia["expr"], f"init_{name}"), args=list(ia["args"]))


_CUSTOM = None


def custom_surrogate_class():
    """A user-defined surrogate (subclass of the public AbstractSurrogate): `predict` returns a name-keyed mapping -
    here in the reverse of the declared output order, which a mapping is free to have."""
    global _CUSTOM
    if _CUSTOM is None:
        from dataclasses import dataclass, field

        from mxlpy.surrogates.abstract import AbstractSurrogate

        @dataclass(kw_only=True)
        class ReversedDictSurrogate(AbstractSurrogate):
            fns: list = field(default_factory=list)

            def predict(self, args):
                vals = [args[a] for a in self.args]
                out = {o: f(*vals) for o, f in zip(self.outputs, self.fns, strict=True)}
                return dict(reversed(list(out.items())))

        _CUSTOM = ReversedDictSurrogate
    return _CUSTOM


def build(spec):
    from mxlpy import Model
    from mxlpy.surrogates import qss

    m = Model()
    for c in spec["decl"]:
        k, n = c["kind"], c["name"]
        if k == "variable":
            m.add_variable(n, _ia(c["ia"], n) if "ia" in c else c["value"])
        elif k == "parameter":
            m.add_parameter(n, _ia(c["ia"], n) if "ia" in c else c["value"])
        elif k == "derived":
            m.add_derived(n, _fn(c["args"], c["expr"], f"d_{n}"), args=list(c["args"]))
        elif k == "reaction":
            m.add_reaction(
                n,
                _fn(c["args"], c["expr"], f"r_{n}"),
                args=list(c["args"]),
                stoichiometry={v: _coef(cf, n, v) for v, cf in c["stoich"].items()},
            )
        elif k == "readout":
            m.add_readout(n, _fn(c["args"], c["expr"], f"ro_{n}"), args=list(c["args"]))
        elif k == "data":
            m.add_data(n, pd.Series(c["values"], dtype=float))
        elif k == "surrogate" and c.get("poly"):
            from numpy.polynomial.polynomial import Polynomial

            from mxlpy.surrogates import poly

            m.add_surrogate(
                n,
                poly.Surrogate(
                    model=Polynomial(list(c["poly"])),
                    args=list(c["args"]),
                    outputs=list(c["outputs"]),
                    stoichiometries={o: {v: _coef(cf, o, v) for v, cf in st.items()} for o, st in c["stoich"].items()},
                ),
            )
        elif k == "surrogate" and c.get("custom"):
            m.add_surrogate(
                n,
                custom_surrogate_class()(
                    fns=[_fn(c["args"], e, f"s_{n}_{i}") for i, e in enumerate(c["exprs"])],
                    args=list(c["args"]),
                    outputs=list(c["outputs"]),
                    stoichiometries={o: {v: _coef(cf, o, v) for v, cf in st.items()} for o, st in c["stoich"].items()},
                ),
            )
        elif k == "surrogate":
            fns_ = [_fn(c["args"], e, f"s_{n}_{i}") for i, e in enumerate(c["exprs"])]

            def model(*vals, _f=fns_):
                return tuple(f(*vals) for f in _f)

            m.add_surrogate(
                n,
                qss.Surrogate(
                    model=model,
                    args=list(c["args"]),
                    outputs=list(c["outputs"]),
                    stoichiometries={
                        o: {v: _coef(cf, o, v) for v, cf in st.items()} for o, st in c["stoich"].items()
                    },
                ),
            )
        else:
            raise ValueError(k)
    return m
