"""Locate external tools by absolute path with PATH fallback."""

from __future__ import annotations

import glob
import os
import shutil

_CANDIDATES = {
    "node": ["/root/.nvm/versions/node/*/bin/node", "/usr/bin/node", "/usr/local/bin/node"],
    "rustc": ["/root/.cargo/bin/rustc", "/usr/bin/rustc", "/usr/local/bin/rustc"],
}


def _version_key(path):
    import re

    return [int(x) for x in re.findall(r"\d+", path)]


def find(name):
    for pat in _CANDIDATES.get(name, []):
        for p in sorted(glob.glob(pat), key=_version_key, reverse=True):
            if os.access(p, os.X_OK):
                return p
    return shutil.which(name)
