"""File-system shim for crash-point enumeration (C19).

Inside a `FaultFS(root, plan)` context every state-changing file-system operation on a path under
`root` is logged as one *event*; files opened for writing are wrapped in a proxy that forwards to an
unbuffered real file. The proxy models Python's own buffering: with the default `buffering` argument the
bytes of `write()` calls stay in user space (they are LOST by a crash) until `flush()`, `close()` or until
io.DEFAULT_BUFFER_SIZE bytes have accumulated; only then do they become a "write" event, i.e. are handed
to the OS. A file opened with buffering=0 hands every write over at once. A *crash plan*
(event index, byte offset | None) makes the process "die" at that instant:

    (i, None)  -> before event i happens
    (i, b)     -> inside write-event i after exactly b bytes reached the file

Dying = the allowed prefix is written, a Crash (BaseException) is raised, and from then on every
intercepted operation is a no-op that re-raises Crash, so `finally:` / `except BaseException:` clean-up
code in the library cannot tidy up after its own death. With kill=True the process really sends
itself SIGKILL at that instant instead (used to validate the simulated crash states).

With interrupt=True the same instants are used for the *other* way a run ends early: an exception that arrives
from outside (Ctrl-C / SIGINT, a sys.exit from a signal handler). A KeyboardInterrupt is raised at the instant
(inside a write: after b bytes were produced - the rest never is), and the process LIVES ON: `finally:` blocks and
context managers run and their file-system operations take effect.
"""

from __future__ import annotations

import builtins
import io
import os
import signal
from pathlib import Path


class Crash(BaseException):
    """The simulated death of the process."""


class _Proxy:
    def __init__(self, fs, real, path, buffered=False):
        self._fs, self._real, self._path = fs, real, path
        self.closed = False
        self.name = path
        self.mode = getattr(real, "mode", "wb")
        self._buffered = buffered
        self._buf = bytearray()  # bytes still in user space

    def _to_os(self, data):
        """One write event: the bytes reach the file (or a prefix of them, if the plan crashes inside)."""
        n = self._fs._before("write", self._path, len(data), real=self._real, data=data)
        if n is not None:  # crash inside this write after n bytes (already written by _before)
            raise Crash
        self._real.write(data)

    def _drain(self):
        if self._buf:
            data = bytes(self._buf)
            self._buf.clear()
            self._to_os(data)

    def write(self, data):
        data = bytes(data) if not isinstance(data, (bytes, str)) else data
        if isinstance(data, str):
            data = data.encode()
        if self._fs.crashed:
            raise Crash
        if self._fs.interrupt:
            # the producer of the data can be interrupted as well: before it hands anything over, or part-way
            n = self._fs._before("uwrite", self._path, len(data), data=data)
            if n is not None:
                self._buf += data[:n]
                raise KeyboardInterrupt
        if not self._buffered:
            self._to_os(data)
            return len(data)
        if len(self._buf) + len(data) >= io.DEFAULT_BUFFER_SIZE:
            self._drain()
        if len(data) >= io.DEFAULT_BUFFER_SIZE:
            self._to_os(data)
        else:
            self._buf += data
        return len(data)

    def flush(self):
        if self._fs.crashed:
            raise Crash
        self._drain()
        self._real.flush()

    def close(self):
        if self.closed:
            return
        if self._fs.crashed:
            self.closed = True
            raise Crash
        self._drain()
        self._fs._before("close", self._path)
        self.closed = True
        self._real.close()

    def fileno(self):
        return self._real.fileno()

    def tell(self):
        return self._real.tell() + len(self._buf)

    def writable(self):
        return True

    def readable(self):
        return False

    def seekable(self):
        return False

    def __enter__(self):
        return self

    def __exit__(self, *exc):
        self.close()
        return False


class FaultFS:
    def __init__(self, root, plan=None, *, kill=False, interrupt=False):
        self.root = str(Path(root).resolve())
        self.plan = plan
        self.kill = kill
        self.interrupt = interrupt
        self.events = []
        self.crashed = False
        self._saved = {}
        self._fds = {}

    # -- helpers ---------------------------------------------------------------------------
    def _under(self, p):
        try:
            s = os.fspath(p)
        except TypeError:
            return False
        if isinstance(s, bytes):
            s = s.decode()
        s = os.path.abspath(s)
        return s == self.root or s.startswith(self.root + os.sep)

    def _rel(self, p):
        s = os.path.abspath(os.fspath(p))
        return os.path.relpath(s, self.root)

    def _die(self):
        if self.interrupt:
            self.plan = None  # once
            raise KeyboardInterrupt
        self.crashed = True
        if self.kill:
            os.kill(os.getpid(), signal.SIGKILL)
        raise Crash

    def _before(self, kind, path, n=None, *, real=None, data=None):
        """Log an event; honour the crash plan. Returns a byte count if the crash is inside a write."""
        if self.crashed:
            raise Crash
        idx = len(self.events)
        if self.plan is not None and self.plan[0] == idx:
            b = self.plan[1]
            if kind == "uwrite" and b is not None:
                # part of the data is handed over (to the user-space buffer), the rest is never produced
                self.events.append((kind, self._rel(path), n, f"INTERRUPT-AFTER-{min(b, len(data))}"))
                self.plan = None
                return min(b, len(data))
            if b is None or kind != "write":
                self.events.append((kind, self._rel(path), n, "CRASH-BEFORE"))
                self._die()
            # inside the write: exactly b bytes reach the file
            b = min(b, len(data))
            real.write(data[:b])
            real.flush()
            self.events.append((kind, self._rel(path), n, f"CRASH-AFTER-{b}"))
            if self.interrupt:
                self.plan = None
                raise KeyboardInterrupt
            self.crashed = True
            try:
                real.close()
            except OSError:
                pass
            if self.kill:
                os.kill(os.getpid(), signal.SIGKILL)
            return b
        self.events.append((kind, self._rel(path), n, None))
        return None

    # -- patched operations ------------------------------------------------------------------
    def _open(self, file, mode="r", buffering=-1, *a, **k):
        real_open = self._saved["io.open"]
        if isinstance(file, int) and file in self._fds and any(c in mode for c in "wax+"):
            path = self._fds.pop(file)
            if self.crashed:
                raise Crash
            return _Proxy(self, real_open(file, mode.replace("t", "") if "b" in mode else mode, 0 if "b" in mode else buffering, *a, **k), path, buffered=buffering != 0)
        if not isinstance(file, int) and self._under(file) and any(c in mode for c in "wax+"):
            if "b" not in mode:
                # text mode writes are forwarded through a binary unbuffered file as well
                self._before("open-" + mode.replace("t", ""), file)
                return _TextProxy(self, real_open(file, mode.replace("t", "") + "b", 0), os.fspath(file), buffered=True)
            self._before("open-" + mode, file)
            return _Proxy(self, real_open(file, mode, 0), os.fspath(file), buffered=buffering != 0)
        if self.crashed and not isinstance(file, int) and self._under(file):
            raise Crash
        return real_open(file, mode, buffering, *a, **k)

    def _os_open(self, path, flags, mode=0o777, *, dir_fd=None):
        real = self._saved["os.open"]
        if dir_fd is None and self._under(path) and flags & (os.O_WRONLY | os.O_RDWR | os.O_CREAT | os.O_TRUNC | os.O_APPEND):
            self._before("os.open", path)
            fd = real(path, flags, mode)
            self._fds[fd] = os.fspath(path)
            return fd
        return real(path, flags, mode, dir_fd=dir_fd) if dir_fd is not None else real(path, flags, mode)

    def _two(self, name):
        def fn(src, dst, *a, **k):
            if self._under(src) or self._under(dst):
                self._before(name, f"{self._rel(src)} -> {self._rel(dst)}" if self._under(src) and self._under(dst) else src)
            return self._saved["os." + name](src, dst, *a, **k)

        return fn

    def _one(self, name):
        def fn(path, *a, **k):
            if self._under(path):
                if name in ("mkdir",) and os.path.isdir(path):
                    return self._saved["os." + name](path, *a, **k)
                self._before(name, path)
            return self._saved["os." + name](path, *a, **k)

        return fn

    def __enter__(self):
        self._saved = {
            "io.open": io.open, "builtins.open": builtins.open, "os.open": os.open,
            "os.replace": os.replace, "os.rename": os.rename, "os.remove": os.remove, "os.unlink": os.unlink,
            "os.mkdir": os.mkdir, "os.truncate": os.truncate, "os.rmdir": os.rmdir, "os.link": os.link,
        }
        io.open = self._open
        builtins.open = self._open
        os.open = self._os_open
        os.replace = self._two("replace")
        os.rename = self._two("rename")
        os.link = self._two("link")
        os.remove = self._one("remove")
        os.unlink = self._one("unlink")
        os.mkdir = self._one("mkdir")
        os.rmdir = self._one("rmdir")
        os.truncate = self._one("truncate")
        return self

    def __exit__(self, *exc):
        io.open = self._saved["io.open"]
        builtins.open = self._saved["builtins.open"]
        os.open = self._saved["os.open"]
        for n in ("replace", "rename", "remove", "unlink", "mkdir", "truncate", "rmdir", "link"):
            setattr(os, n, self._saved["os." + n])
        return False


class _TextProxy(_Proxy):
    def write(self, data):
        return super().write(data.encode() if isinstance(data, str) else data)


def snapshot(root):
    """{relative path: bytes} of every file under root (directories as None)."""
    root = Path(root)
    out = {}
    if not root.exists():
        return None
    for p in sorted(root.rglob("*")):
        out[str(p.relative_to(root))] = p.read_bytes() if p.is_file() else None
    return out
