"""Reference evaluator: demand-driven evaluation of a spec by name.

Implements the semantics *stated in the properties* (C01, C02, C13), with an algorithm
unrelated to mxlpy's retry-queue sort: recursive descent with memoisation and an
"in progress" mark.

    - initial assignments (on variables and parameters) are evaluated once, at time 0 on the
      declared initial state, after everything they name, and are then frozen;
    - everything else is evaluated at the supplied (time, state);
    - d var / dt = sum over reactions and surrogate fluxes of coefficient x flux.
"""

from __future__ import annotations

from mc import expr as X


class RefCycle(Exception):
    pass


class RefMissing(Exception):
    pass


class Ref:
    def __init__(self, spec):
        self.spec = spec
        self.by_name = {}
        self.provider = {}  # surrogate output -> (surrogate component, index)
        for c in spec["decl"]:
            self.by_name[c["name"]] = c
            if c["kind"] == "surrogate":
                for i, o in enumerate(c["outputs"]):
                    self.provider[o] = (c, i)
        self.var_names = [c["name"] for c in spec["decl"] if c["kind"] == "variable"]
        self._init = None

    # -- generic resolution ----------------------------------------------------------
    def _resolve(self, name, state, time, memo, active, init_mode):
        if name in memo:
            return memo[name]
        if name in active:
            raise RefCycle(name)
        if name == "time":
            return time
        if name in self.provider:
            c, i = self.provider[name]
            active.add(name)
            env = {a: self._resolve(a, state, time, memo, active, init_mode) for a in c["args"]}
            active.discard(name)
            for o, e in zip(c["outputs"], c["exprs"], strict=True):
                memo[o] = X.ev(e, env)
            return memo[name]
        c = self.by_name.get(name)
        if c is None:
            raise RefMissing(name)
        k = c["kind"]
        if k == "data":
            return c["values"]
        if k in ("variable", "parameter") and "ia" in c:
            if init_mode:
                ia = c["ia"]
                active.add(name)
                env = {a: self._resolve(a, state, time, memo, active, True) for a in ia["args"]}
                active.discard(name)
                v = X.ev(ia["expr"], env)
                memo[name] = v
                return v
            if k == "parameter":
                return self.init_values()[name]
            return state[name]
        if k == "variable":
            v = c["value"] if init_mode else state[name]
            memo[name] = v
            return v
        if k == "parameter":
            memo[name] = c["value"]
            return c["value"]
        if k in ("derived", "reaction", "readout"):
            active.add(name)
            env = {a: self._resolve(a, state, time, memo, active, init_mode) for a in c["args"]}
            active.discard(name)
            v = X.ev(c["expr"], env)
            memo[name] = v
            return v
        raise RefMissing(name)

    # -- initial context -------------------------------------------------------------
    def init_values(self):
        """All names evaluated at t=0 on the declared initial state."""
        if self._init is None:
            memo = {}
            for c in self.spec["decl"]:
                if c["kind"] in ("variable", "parameter", "derived", "reaction"):
                    self._resolve(c["name"], None, 0.0, memo, set(), True)
                elif c["kind"] == "surrogate":
                    for o in c["outputs"]:
                        self._resolve(o, None, 0.0, memo, set(), True)
            self._init = memo
        return self._init

    def initial_conditions(self):
        iv = self.init_values()
        return {v: iv[v] for v in self.var_names}

    # -- evaluation at a supplied state ------------------------------------------------
    def value(self, name, state, time, memo=None):
        memo = {} if memo is None else memo
        return self._resolve(name, state, time, memo, set(), False)

    def all_values(self, state, time, *, readouts=False):
        memo = {}
        out = {}
        for c in self.spec["decl"]:
            k = c["kind"]
            if k in ("variable", "parameter", "derived", "reaction") or (readouts and k == "readout"):
                out[c["name"]] = self.value(c["name"], state, time, memo)
            elif k == "surrogate":
                for o in c["outputs"]:
                    out[o] = self.value(o, state, time, memo)
        out["time"] = time
        return out

    def coefficient(self, coef, state, time, memo):
        if isinstance(coef, (int, float)):
            return coef
        if isinstance(coef, str):
            return self.value(coef, state, time, memo)
        env = {a: self.value(a, state, time, memo) for a in coef["args"]}
        return X.ev(coef["expr"], env)

    def flux_names(self):
        names = [c["name"] for c in self.spec["decl"] if c["kind"] == "reaction"]
        for c in self.spec["decl"]:
            if c["kind"] == "surrogate":
                names.extend(c["stoich"])
        return names

    def rhs(self, state, time):
        memo = {}
        d = dict.fromkeys(self.var_names, 0.0)
        for c in self.spec["decl"]:
            if c["kind"] == "reaction":
                v = self.value(c["name"], state, time, memo)
                for var, coef in c["stoich"].items():
                    d[var] += self.coefficient(coef, state, time, memo) * v
            elif c["kind"] == "surrogate":
                for out, st in c["stoich"].items():
                    v = self.value(out, state, time, memo)
                    for var, coef in st.items():
                        d[var] += self.coefficient(coef, state, time, memo) * v
        return d

    # -- classification (C13) ----------------------------------------------------------
    def is_parameter_like(self, name, seen=None):
        """True iff `name` reaches only parameters through any chain."""
        seen = set() if seen is None else seen
        if name == "time":
            return False
        if name in self.provider:
            return False
        c = self.by_name.get(name)
        if c is None:
            raise RefMissing(name)
        k = c["kind"]
        if k == "parameter":
            return True
        if k == "derived":
            if name in seen:
                raise RefCycle(name)
            seen.add(name)
            return all(self.is_parameter_like(a, seen) for a in c["args"])
        return False


def selftest():
    """Hand-computed values for three fixed specs; a failure aborts with exit 2."""
    N, V = X.name, X.num
    s1 = {
        "decl": [
            {"kind": "variable", "name": "x", "value": 2.0},
            {"kind": "parameter", "name": "k", "value": 3.0},
            {"kind": "reaction", "name": "v", "args": ["x", "k"], "expr": ["mul", N("x"), N("k")], "stoich": {"x": -1}},
        ]
    }
    r = Ref(s1)
    assert r.rhs({"x": 5.0}, 0.0) == {"x": -15.0}
    assert r.initial_conditions() == {"x": 2.0}
    s2 = {
        "decl": [
            {"kind": "derived", "name": "d2", "args": ["d1", "x"], "expr": ["add", N("d1"), N("x")]},
            {"kind": "derived", "name": "d1", "args": ["k"], "expr": ["mul", N("k"), V(2.0)]},
            {"kind": "variable", "name": "x", "value": 1.0},
            {"kind": "variable", "name": "w", "ia": {"args": ["d2"], "expr": ["mul", N("d2"), V(10.0)]}},
            {"kind": "parameter", "name": "k", "value": 3.0},
            {"kind": "parameter", "name": "q", "ia": {"args": ["w"], "expr": ["add", N("w"), V(1.0)]}},
            {"kind": "reaction", "name": "v", "args": ["d2", "q"], "expr": ["mul", N("d2"), N("q")],
             "stoich": {"x": -1, "w": {"args": ["x"], "expr": ["mul", N("x"), V(2.0)]}}},
        ]
    }
    r = Ref(s2)
    assert r.initial_conditions() == {"x": 1.0, "w": 70.0}
    assert r.init_values()["q"] == 71.0
    # at x=2, w=5: d1=6, d2=8, q stays 71, v=568, dx=-568, dw=4*568
    assert r.rhs({"x": 2.0, "w": 5.0}, 1.0) == {"x": -568.0, "w": 2272.0}
    assert r.is_parameter_like("d1") and not r.is_parameter_like("d2")
    s3 = {
        "decl": [
            {"kind": "variable", "name": "x", "value": 1.0},
            {"kind": "surrogate", "name": "s", "args": ["x"], "outputs": ["a", "b"],
             "exprs": [["mul", N("x"), V(2.0)], ["add", N("x"), V(1.0)]], "stoich": {"a": {"x": -1.0}}},
            {"kind": "derived", "name": "d", "args": ["b", "time"], "expr": ["mul", N("b"), N("time")]},
            {"kind": "reaction", "name": "v", "args": ["d"], "expr": N("d"), "stoich": {"x": 1.0}},
        ]
    }
    r = Ref(s3)
    # x=3, t=2: a=6, b=4, d=8, v=8, dx = -6 + 8
    assert r.rhs({"x": 3.0}, 2.0) == {"x": 2.0}
    try:
        Ref({"decl": [{"kind": "derived", "name": "d", "args": ["d"], "expr": N("d")}]}).value("d", {}, 0.0)
    except RefCycle:
        pass
    else:
        raise AssertionError("cycle not detected")
    return True
