"""Execute generated stand-alone model functions: CPython, node (TypeScript with the fixed annotations
stripped), rustc (batched crates with per-module error attribution) and a Julia-subset evaluator.

Every runner returns, per item, either {"ok": True, "results": [[...], ...]} (one list per call) or
{"ok": False, "stage": "parse|compile|run|shape", "error": text}.
"""

from __future__ import annotations

import json
import math
import os
import re
import subprocess
import tempfile
from pathlib import Path

from mc import tools

# --------------------------------------------------------------------------------------
# Python
# --------------------------------------------------------------------------------------


def run_python(code, calls):
    ns = {}
    try:
        exec(compile(code, "<generated>", "exec"), ns)  # noqa: S102
    except SyntaxError as exc:
        return {"ok": False, "stage": "parse", "error": f"SyntaxError: {exc}"}
    except Exception as exc:  # noqa: BLE001
        return {"ok": False, "stage": "parse", "error": f"{type(exc).__name__}: {exc}"}
    model = ns.get("model")
    if model is None:
        return {"ok": False, "stage": "parse", "error": "no function `model`"}
    out = []
    for t, y, free in calls:
        try:
            r = model(t, tuple(y), *free)
            out.append([float(v) for v in r])
        except Exception as exc:  # noqa: BLE001
            return {"ok": False, "stage": "run", "error": f"{type(exc).__name__}: {exc}"}
    return {"ok": True, "results": out}


# --------------------------------------------------------------------------------------
# TypeScript via node
# --------------------------------------------------------------------------------------

_TS_ANN = re.compile(r":\s*number(\[\])?")


def strip_ts(code):
    return _TS_ANN.sub("", code)


def run_js_batch(items, workdir):
    """items: [(id, ts_code, calls)]"""
    node = tools.find("node")
    if node is None:
        return {i: {"ok": False, "stage": "tool", "error": "node not found"} for i, _c, _k in items}
    payload = [{"id": i, "code": strip_ts(c), "calls": k} for i, c, k in items]
    script = """
const items = JSON.parse(require('fs').readFileSync(process.argv[2], 'utf8'));
const out = {};
for (const it of items) {
  let model;
  try { model = new Function(it.code + "\\n; return model;")(); }
  catch (e) { out[it.id] = {ok: false, stage: "parse", error: String(e)}; continue; }
  try {
    const res = it.calls.map(c => { const r = model(c[0], c[1], ...c[2]); if (!Array.isArray(r)) throw new Error("not an array: " + r); return r.map(v => (typeof v === "number" && isFinite(v)) ? v : String(v)); });
    out[it.id] = {ok: true, results: res};
  } catch (e) { out[it.id] = {ok: false, stage: "run", error: String(e)}; }
}
process.stdout.write(JSON.stringify(out));
"""
    with tempfile.TemporaryDirectory(dir=workdir) as d:
        (Path(d) / "run.js").write_text(script)
        (Path(d) / "items.json").write_text(json.dumps(payload))
        p = subprocess.run([node, str(Path(d) / "run.js"), str(Path(d) / "items.json")], capture_output=True, text=True, timeout=600)
        if p.returncode != 0:
            return {i: {"ok": False, "stage": "tool", "error": p.stderr[-500:]} for i, _c, _k in items}
        raw = json.loads(p.stdout)
    out = {}
    for i, _c, _k in items:
        r = raw[str(i)] if str(i) in raw else raw.get(i)
        if r and r.get("ok"):
            r["results"] = [[_num(v) for v in row] for row in r["results"]]
        out[i] = r
    return out


def _num(v):
    if isinstance(v, (int, float)):
        return float(v)
    s = str(v)
    if s in ("NaN", "nan"):
        return math.nan
    if s in ("Infinity", "inf"):
        return math.inf
    if s in ("-Infinity", "-inf"):
        return -math.inf
    return math.nan


# --------------------------------------------------------------------------------------
# Rust via rustc
# --------------------------------------------------------------------------------------

_RS_ERR = re.compile(r"^(?:[^:\n]+):(\d+):(\d+): error", re.M)


def run_rust_batch(items, workdir):
    """items: [(id, rust_code, calls)] - compiled together, failing modules identified by line."""
    rustc = tools.find("rustc")
    if rustc is None:
        return {i: {"ok": False, "stage": "tool", "error": "rustc not found"} for i, _c, _k in items}
    out = {}
    live = list(items)
    with tempfile.TemporaryDirectory(dir=workdir) as d:
        d = Path(d)
        for _round in range(12):
            if not live:
                break
            lines = ["#![allow(warnings)]"]
            ranges = []
            for idx, (i, code, calls) in enumerate(live):
                start = len(lines) + 1
                lines.append(f"mod m{idx} {{")
                lines.append("use std::f64::consts::*;" if False else "")
                lines.extend(code.replace("fn model(", "pub fn model(", 1).splitlines())
                lines.append("}")
                ranges.append((start, len(lines), i))
            lines.append("fn main() {")
            for idx, (i, code, calls) in enumerate(live):
                for ci, (t, y, free) in enumerate(calls):
                    ys = ", ".join(_rs_f(v) for v in y)
                    fs = "".join(", " + _rs_f(v) for v in free)
                    lines.append(f'    println!("R {idx} {ci} {{:?}}", m{idx}::model({_rs_f(t)}, &[{ys}]{fs}));')
            lines.append("}")
            src = d / "batch.rs"
            src.write_text("\n".join(lines))
            p = subprocess.run([rustc, "--edition", "2021", "-C", "opt-level=0", "-C", "debuginfo=0", "--error-format=short",
                                "-o", str(d / "batch_bin"), str(src)], capture_output=True, text=True, timeout=900,
                               env={**os.environ, "RUSTFLAGS": ""})
            if p.returncode == 0:
                r = subprocess.run([str(d / "batch_bin")], capture_output=True, text=True, timeout=300)
                got = {}
                for line in r.stdout.splitlines():
                    if line.startswith("R "):
                        _r, idx, ci, rest = line.split(" ", 3)
                        got.setdefault(int(idx), {})[int(ci)] = [_num_rs(v) for v in rest.strip("[]").split(",") if v.strip()]
                for idx, (i, code, calls) in enumerate(live):
                    rows = got.get(idx, {})
                    if len(rows) != len(calls):
                        out[i] = {"ok": False, "stage": "run", "error": (r.stderr or "missing output")[-300:]}
                    else:
                        out[i] = {"ok": True, "results": [rows[c] for c in range(len(calls))]}
                live = []
                break
            bad = set()
            msgs = {}
            for mt in _RS_ERR.finditer(p.stderr):
                ln = int(mt.group(1))
                for s, e, i in ranges:
                    if s <= ln <= e:
                        bad.add(i)
                        if i not in msgs:
                            eol = p.stderr.find("\n", mt.start())
                            msgs[i] = p.stderr[mt.start(): eol if eol > 0 else None][:300]
            if not bad:
                # cannot attribute: fail the whole batch with the compiler text
                for i, _c, _k in live:
                    out[i] = {"ok": False, "stage": "compile", "error": p.stderr[-400:]}
                live = []
                break
            for i in bad:
                out[i] = {"ok": False, "stage": "compile", "error": msgs.get(i, "compile error")}
            live = [it for it in live if it[0] not in bad]
        for i, _c, _k in live:
            out[i] = {"ok": False, "stage": "compile", "error": "not resolved after 12 rounds"}
    return out


def _rs_f(v):
    s = repr(float(v))
    if "e" in s and "." not in s:
        s = s.replace("e", ".0e")
    return s + "_f64"


def _num_rs(v):
    v = v.strip()
    if v == "NaN":
        return math.nan
    if v == "inf":
        return math.inf
    if v == "-inf":
        return -math.inf
    return float(v)


# --------------------------------------------------------------------------------------
# Julia subset
# --------------------------------------------------------------------------------------


class JuliaError(Exception):
    pass


_TOK = re.compile(r"\s*(?:(\d+\.\d*(?:[eE][-+]?\d+)?|\.\d+(?:[eE][-+]?\d+)?|\d+(?:[eE][-+]?\d+)?)|([A-Za-z_][A-Za-z_0-9]*)|(\.\*|\./|\.\^|\.\+|\.-|&&|\|\||<=|>=|==|!=|[-+*/^()<>?:,!]))")

_JL_FUNCS = {
    "sqrt": math.sqrt, "abs": abs, "exp": math.exp, "log": math.log, "floor": math.floor, "ceil": math.ceil,
    "min": min, "max": max, "sin": math.sin, "cos": math.cos, "tan": math.tan,
}
_JL_CONST = {"pi": math.pi, "e": math.e}


def _jl_tokens(text):
    pos = 0
    toks = []
    text = text.strip()
    while pos < len(text):
        mt = _TOK.match(text, pos)
        if not mt or mt.end() == pos:
            raise JuliaError(f"cannot tokenise {text[pos:pos + 20]!r}")
        num, ident, op = mt.groups()
        if num is not None:
            toks.append(("num", float(num)))
        elif ident is not None:
            toks.append(("id", ident))
        else:
            toks.append(("op", op))
        pos = mt.end()
        while pos < len(text) and text[pos].isspace():
            pos += 1
    return toks


class _JlParser:
    """Recursive descent for: ternary > || > && > comparison > + - > * / > unary > ^ > atom."""

    def __init__(self, toks, env):
        self.t = toks
        self.i = 0
        self.env = env

    def peek(self):
        return self.t[self.i] if self.i < len(self.t) else (None, None)

    def eat(self, kind=None, val=None):
        k, v = self.peek()
        if k is None or (kind and k != kind) or (val is not None and v != val):
            raise JuliaError(f"expected {val or kind}, found {v!r}")
        self.i += 1
        return v

    def parse(self):
        v = self.ternary()
        if self.i != len(self.t):
            raise JuliaError(f"trailing tokens {self.t[self.i:][:3]}")
        return v

    def ternary(self):
        c = self.lor()
        if self.peek() == ("op", "?"):
            self.eat()
            a = self.ternary()
            self.eat("op", ":")
            b = self.ternary()
            return a if c else b
        return c

    def lor(self):
        v = self.land()
        while self.peek() == ("op", "||"):
            self.eat()
            r = self.land()
            v = bool(v) or bool(r)
        return v

    def land(self):
        v = self.cmp()
        while self.peek() == ("op", "&&"):
            self.eat()
            r = self.cmp()
            v = bool(v) and bool(r)
        return v

    def cmp(self):
        v = self.add()
        k, op = self.peek()
        result = None
        while k == "op" and op in ("<", ">", "<=", ">=", "==", "!="):
            self.eat()
            r = self.add()
            ok = {"<": v < r, ">": v > r, "<=": v <= r, ">=": v >= r, "==": v == r, "!=": v != r}[op]
            result = ok if result is None else (result and ok)
            v = r
            k, op = self.peek()
        return v if result is None else result

    def add(self):
        v = self.mul()
        k, op = self.peek()
        while k == "op" and op in ("+", "-", ".+", ".-"):
            self.eat()
            r = self.mul()
            v = v + r if op in ("+", ".+") else v - r
            k, op = self.peek()
        return v

    def mul(self):
        v = self.unary()
        k, op = self.peek()
        while k == "op" and op in ("*", "/", ".*", "./"):
            self.eat()
            r = self.unary()
            v = v * r if op in ("*", ".*") else v / r
            k, op = self.peek()
        return v

    def unary(self):
        k, op = self.peek()
        if k == "op" and op in ("-", "+"):
            self.eat()
            v = self.unary()
            return -v if op == "-" else v
        if k == "op" and op == "!":
            self.eat()
            return not self.unary()
        return self.power()

    def power(self):
        b = self.atom()
        k, op = self.peek()
        if k == "op" and op in ("^", ".^"):
            self.eat()
            e = self.unary()  # right associative
            return b**e
        return b

    def atom(self):
        k, v = self.peek()
        if k == "num":
            self.eat()
            return v
        if k == "id":
            self.eat()
            if self.peek() == ("op", "("):
                self.eat()
                args = []
                if self.peek() != ("op", ")"):
                    args.append(self.ternary())
                    while self.peek() == ("op", ","):
                        self.eat()
                        args.append(self.ternary())
                self.eat("op", ")")
                if v not in _JL_FUNCS:
                    raise JuliaError(f"unknown function {v}")
                return _JL_FUNCS[v](*args)
            if v in self.env:
                return self.env[v]
            if v in _JL_CONST:
                return _JL_CONST[v]
            if v in ("true", "false"):
                return v == "true"
            raise JuliaError(f"UndefVarError: {v} not defined")
        if k == "op" and v == "(":
            self.eat()
            x = self.ternary()
            self.eat("op", ")")
            return x
        raise JuliaError(f"unexpected token {v!r}")


_JL_HEADER = re.compile(r"^function\s+model\(([^)]*)\)\s*$")
_JL_IDENT = re.compile(r"^[A-Za-z_][A-Za-z_0-9]*$")


def run_julia_subset(code, calls):
    """Evaluate code in a small Julia subset; anything outside the subset is 'not well-formed'."""
    lines = [ln for ln in code.splitlines()]
    # join continuation lines of multi-line ternaries: a line ending in '?' or ':' or '(' continues
    logical = []
    buf = ""
    depth = 0
    for ln in lines:
        s = ln.strip()
        if not s:
            continue
        buf = (buf + " " + s).strip() if buf else s
        depth = buf.count("(") - buf.count(")")
        if depth > 0 or buf.endswith(("?", ":", "+", "-", "*", "/", "&&", "||")):
            continue
        logical.append(buf)
        buf = ""
    if buf:
        logical.append(buf)
    if not logical or not (mt := _JL_HEADER.match(logical[0])):
        return {"ok": False, "stage": "parse", "error": f"bad header {logical[:1]}"}
    params = [p.strip() for p in mt.group(1).split(",") if p.strip()]
    if logical[-1] != "end":
        return {"ok": False, "stage": "parse", "error": "missing end"}
    body = logical[1:-1]
    out = []
    for t, y, free in calls:
        vals = [t, tuple(y), *free]
        if len(vals) != len(params):
            return {"ok": False, "stage": "run", "error": f"MethodError: {len(params)} parameters, {len(vals)} arguments"}
        env = dict(zip(params, vals, strict=True))
        ret = None
        try:
            for ln in body:
                if ln.startswith("return"):
                    rest = ln[len("return"):].strip()
                    if rest == "()":
                        ret = []
                    else:
                        ret = [_JlParser(_jl_tokens(part), env).parse() for part in _split_top(rest)]
                    break
                if "=" not in ln:
                    raise JuliaError(f"not an assignment: {ln}")
                lhs, rhs = ln.split("=", 1)
                if rhs.startswith("="):
                    raise JuliaError(f"not an assignment: {ln}")
                targets = [x.strip() for x in lhs.split(",")]
                if any(not _JL_IDENT.match(x) for x in targets if x) or (targets and targets[-1] == "" and len(targets) == 1):
                    raise JuliaError(f"bad assignment target {lhs!r}")
                trailing_comma = targets[-1] == ""
                if trailing_comma:
                    targets = targets[:-1]
                rhs = rhs.strip()
                if len(targets) > 1 or trailing_comma:
                    if not _JL_IDENT.match(rhs):
                        raise JuliaError(f"ParseError: cannot destructure from {rhs!r}")
                    seq = env.get(rhs)
                    if not isinstance(seq, tuple):
                        raise JuliaError(f"cannot destructure {rhs}")
                    if len(seq) < len(targets):
                        raise JuliaError("BoundsError in destructuring")
                    for n, v in zip(targets, seq):  # Julia allows fewer targets than elements
                        env[n] = v
                else:
                    if rhs.startswith("*"):
                        raise JuliaError(f"ParseError: {rhs!r}")
                    val = _JlParser(_jl_tokens(rhs), env).parse()
                    env[targets[0]] = val
            if ret is None:
                raise JuliaError("no return")
            out.append([float(v) for v in ret])
        except JuliaError as exc:
            return {"ok": False, "stage": "run" if "UndefVar" in str(exc) else "parse", "error": str(exc)}
        except (ZeroDivisionError, ValueError, OverflowError, TypeError) as exc:
            return {"ok": False, "stage": "run", "error": f"{type(exc).__name__}: {exc}"}
    return {"ok": True, "results": out}


def _split_top(s):
    parts, depth, cur = [], 0, ""
    for ch in s:
        if ch == "(":
            depth += 1
        elif ch == ")":
            depth -= 1
        if ch == "," and depth == 0:
            parts.append(cur)
            cur = ""
        else:
            cur += ch
    if cur.strip():
        parts.append(cur)
    return parts


def selftest():
    code = "function model(time, variables)\n    a, b = variables\n    k = 2.0\n    r = k .* a ./ (1 + b) + (a > 1 ? a.^2 : 0.5)\n    return -r, r\nend"
    r = run_julia_subset(code, [(0.0, [2.0, 1.0], [])])
    assert r == {"ok": True, "results": [[-6.0, 6.0]]}, r
    bad = run_julia_subset("function model(time, variables)\n    a = *variables\n    return a\nend", [(0.0, [1.0], [])])
    assert not bad["ok"] and bad["stage"] == "parse", bad
    py = run_python("def model(time, variables):\n    a, = variables\n    return (-a,)\n", [(0.0, [2.0], [])])
    assert py == {"ok": True, "results": [[-2.0]]}
    return True
