"""Library of rate functions with real source files (needed by inspect.getsource-based translation).

Used by C07, C11, C12 (and as a source of "the same function serves several components").
Parameter names are deliberately generic and partly overlap with model names in other orders.
"""

import math


def const_in(k):
    return k


def const_t(k, time):
    return k * (1.0 + 0.25 * time)


def ma1(s, k):
    return k * s


def ma1_t(s, k, time):
    return k * s * (1.0 + 0.1 * time)


def ma2(s1, s2, k):
    return k * s1 * s2


def cond_rate(s, k):
    # the branches differ AT the boundary (s == 1.0 is one of the states): `>` read as `>=` is visible
    if s > 1.0:
        return k * s
    return k * s * s + 0.25


def cond_expr(s, k):
    # differs at the boundary (s == 2.0 is one of the states): `<=` read as `<` is visible
    return k * s if s <= 2.0 else 3.0 * k


def rootsq(s, k):
    """|s - 1.25| written as the root of a square, plus a fractional power of a square: both are only equal to the
    unsigned base; the states lie on both sides of 1.25."""
    return k * ((s - 1.25) ** 2) ** 0.5 + ((s - 2.5) ** 2) ** 0.25


def mm(s, vmax, km):
    return vmax * s / (km + s)


def lin(a, k):
    return 1.0 + k * a


def add2(a, b):
    return a + b


def sub2(a, b):
    return a - b


def mul2(a, b):
    return a * b


def div2(a, b):
    return a / b


def twice(a):
    return 2.0 * a


def half_plus(k):
    return k + 0.5


def state_coef(s):
    return 1.0 + 0.5 * s


def init_q(a, b):
    return a + 2.0 * b


def with_local(s, k):
    t = k * s
    u = t + s
    return u - s


def expo(s, k):
    return k * math.exp(-s)


def power(s, k):
    return k * s**2


def loop_fn(s, k):
    t = 0.0
    for _i in range(2):
        t = t + k * s
    return t


def aug_fn(s, k):
    t = k * s
    t += s
    return t


def second(a, b):
    return b + 0 * a


def local_import_fn(s, k):
    """Calls a helper imported INSIDE the body; this module has another function of the same name."""
    from mc.lib_fns2 import ma1

    return ma1(s, k) + 0.5


def module_helper_fn(s, k):
    """Calls this module's own ma1 - next to local_import_fn, which means the other one."""
    return ma1(s, k) * 2.0


def minus_self(k):
    return k - k


def capped(s, k):
    """One-armed if that rebinds a name the code after it reads."""
    v = k * s
    if v > 0.75:
        v = 0.75
    return v + 0.1 * s


KQ = 2.5  # a module-level float that a function below also uses as the name of a local


def tuple_untr_fn(s, k):
    """A tuple display with an element that cannot be translated (loop_fn), bound to a name that is also a module constant."""
    KQ, t = loop_fn(s, k), k * s
    return t + KQ


def weighted3(a, b, c):
    return a + 2 * b + 4 * c


def ign_mid(s, p, k):
    return k * s + 0 * p


# functions at the edge of the translatable subset: generation may refuse them, but whatever it emits must compute
# what the function computes (each binds a name that is already bound, so dropping the statement stays translatable)
def ann_rebind_fn(s, k):
    k: float = 2 * k
    return k * s


def walrus_rebind_fn(s, k):
    return (k := 2 * k) * s + k


def unpack_call_fn(s, k):
    s, k = divmod(s * k, 0.75)
    return s + k


def chained_rebind_fn(s, k):
    s = k = s * k
    return s + 2 * k


def nested_def_fn(s, k):
    def k2(q):
        return q * 3

    return k2(k) * s


def aug_arg_fn(s, k):
    k *= 2
    return k * s


N_INT = 2
ITEMS = [1.0, 2.5]
LABEL = "fast"


def int_global_fn(s, k):
    return k * s * N_INT


def list_global_fn(s, k):
    return k * s * ITEMS[1]


def str_global_fn(s, k):
    return k * s * (2.0 if LABEL == "fast" else 1.0)


def attr_global_fn(s, k):
    return k * s * math.tau / math.pi


def posonly_mixed_fn(s, /, k):
    """Positional-only parameter followed by an ordinary one (not symmetric in its arguments)."""
    return k * s * s / (1.0 + s)


def posonly_all_fn(s, k, /):
    return k * s / (2.0 + s)


def default_arg_fn(s, k=2.0):
    return k * s / (3.0 + s)


EDGE_FNS = [ann_rebind_fn, walrus_rebind_fn, unpack_call_fn, chained_rebind_fn, nested_def_fn, aug_arg_fn,
            int_global_fn, list_global_fn, str_global_fn, attr_global_fn, posonly_mixed_fn, posonly_all_fn, default_arg_fn]
