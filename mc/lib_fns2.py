"""Second function library: functions that share their *names* with mc/lib_fns.py but compute
something else (C11: "different functions happen to share a name")."""


def ma1(s, k):
    return 2.0 * k * s + 1.0


def lin(a, k):
    return 3.0 - k * a


def add2(a, b):
    return a + 3.0 * b


def div2(a, b):
    return b / a
