"""Common machinery: parallel exhaustive evaluation, verdict bookkeeping, known findings,
replay artefacts, evidence.

A property module (mc/props/cXX.py) exposes

    ID, LEVEL, RULE                     constants
    run(ctx)                            drives the exploration through ctx.evaluate(...)
    check(case) -> outcome dict         evaluates ONE case against the real code (also used by --replay)
    PREDICATES = {entry_id: fn(case)}   input-side predicates of the known-finding entries

An *outcome* is a dict:
    ok          bool      the property held on this case
    cls         str       verdict class (counted in the evidence)
    nontrivial  bool      counted into distinct_nontrivial (by the module's RULE)
    symptom     str|None  symptom class when not ok (used for known-finding attribution)
    detail      str       human-readable explanation when not ok
    extra       dict      optional measured numbers that are summed into the evidence
"""

from __future__ import annotations

import hashlib
import json
import multiprocessing as mp
import os
import shutil
import signal
import subprocess
import sys
import time
import traceback
from pathlib import Path

ROOT = Path(__file__).resolve().parent.parent
EVIDENCE_DIR = Path(os.environ.get("VERIF_EVIDENCE_DIR") or ROOT / "evidence")  # override only for scoring seeded changes
REPLAY_DIR = Path(os.environ.get("VERIF_REPLAY_DIR") or ROOT / "replays")
WORK_DIR = ROOT / ".work"
KNOWN_FILE = ROOT / "known_findings.json"
NPROC = int(os.environ.get("VERIF_NPROC", "16"))


class HarnessError(Exception):
    """Something is wrong with the machinery itself (exit 2, never a VIOLATION)."""


def canon_json(obj) -> str:
    return json.dumps(obj, sort_keys=True, default=_json_default, separators=(",", ":"))


def _json_default(o):
    import numpy as np

    if isinstance(o, (np.integer,)):
        return int(o)
    if isinstance(o, (np.floating,)):
        return float(o)
    if isinstance(o, np.ndarray):
        return o.tolist()
    if isinstance(o, (set, frozenset)):
        return sorted(o, key=repr)
    if isinstance(o, tuple):
        return list(o)
    if isinstance(o, Path):
        return str(o)
    return repr(o)


def sha12(obj) -> str:
    return hashlib.sha256(canon_json(obj).encode()).hexdigest()[:12]


def outcome(ok, cls, *, nontrivial=True, symptom=None, detail="", extra=None, key=None):
    d = {
        "ok": bool(ok),
        "cls": cls,
        "nontrivial": bool(nontrivial),
        "symptom": symptom,
        "detail": detail if isinstance(detail, str) else repr(detail),
    }
    if extra:
        d["extra"] = extra
    if key is not None:
        d["key"] = key
    return d


# --------------------------------------------------------------------------------------
# worker side
# --------------------------------------------------------------------------------------

_CHECK = None
_CASE_TIMEOUT = 60


class CaseTimeout(BaseException):
    pass


def _alarm(_sig, _frm):
    raise CaseTimeout


def _worker_init():
    signal.signal(signal.SIGALRM, _alarm)
    sys.excepthook = sys.__excepthook__


def _run_chunk(chunk):
    out = []
    for idx, case in chunk:
        signal.alarm(_CASE_TIMEOUT)
        try:
            res = _CHECK(case)
        except CaseTimeout:
            res = outcome(
                False,
                "timeout",
                symptom="no-termination",
                detail=f"case did not finish within {_CASE_TIMEOUT}s",
            )
        except HarnessError:
            res = {"ok": False, "cls": "harness-exception", "nontrivial": False, "symptom": "harness-exception",
                   "detail": traceback.format_exc()[-3000:], "harness": True}
        except Exception as exc:
            # An exception that escaped a check. If it was raised inside the library under test (or below
            # it) the library did something the check did not anticipate: that is a failing case, not a
            # reason to abort the run. Only an exception raised by the harness's own code is a harness error.
            tb = traceback.extract_tb(exc.__traceback__)
            lib = [fr for fr in tb if "/mxlpy/" in fr.filename]
            if lib:
                res = outcome(False, "unexpected-exception", symptom=f"unexpected-exception:{type(exc).__name__}:{lib[-1].name}",
                              detail=f"{type(exc).__name__}: {str(exc)[:300]} (raised in {lib[-1].filename.split('/mxlpy/')[-1]}:{lib[-1].name}) | case={canon_json(case)[:500]}")
            else:
                res = {"ok": False, "cls": "harness-exception", "nontrivial": False, "symptom": "harness-exception",
                       "detail": traceback.format_exc()[-3000:], "harness": True}
        finally:
            signal.alarm(0)
        out.append((idx, res))
    return out


# --------------------------------------------------------------------------------------
# context
# --------------------------------------------------------------------------------------


class _NoDaemonProcess(mp.get_context("fork").Process):
    """Pool workers that may start their own child processes (the library's pebble pools)."""

    @property
    def daemon(self):
        return False

    @daemon.setter
    def daemon(self, _value):
        pass


class _NoDaemonContext(type(mp.get_context("fork"))):
    Process = _NoDaemonProcess


class Context:
    def __init__(self, module, tier: str, seed: int):
        self.module = module
        self.pid = module.ID
        self.tier = tier
        self.seed = seed
        self.t0 = time.time()
        self.evaluations = 0
        self.classes: dict[str, int] = {}
        self.nontrivial_keys: set[str] = set()
        self.samples: list = []
        self.failures: list[tuple[dict, dict]] = []  # (case, outcome)
        self.extra: dict[str, float] = {}
        self.coverage_extra: dict = {}
        self.assumptions: list[str] = list(getattr(module, "ASSUMPTIONS", []))
        self.exhaustive = True
        self.notes: list[str] = []
        self.work = WORK_DIR / self.pid / str(os.getpid())
        if self.work.exists():
            shutil.rmtree(self.work, ignore_errors=True)
        self.work.mkdir(parents=True, exist_ok=True)
        # import the library under test once, in the parent, so forked workers share it and no
        # per-case alarm can interrupt a half-done import
        import logging

        import mxlpy  # noqa: F401
        import mxlpy.surrogates._qss  # noqa: F401

        logging.getLogger("mxlpy").setLevel(logging.ERROR)
        # progress bars of the library only add noise to stderr
        import mxlpy.parallel as _par

        if not getattr(_par.tqdm, "_mc_quiet", False):
            _real_tqdm = _par.tqdm

            def _quiet_tqdm(*a, **k):
                k["disable"] = True
                return _real_tqdm(*a, **k)

            _quiet_tqdm._mc_quiet = True
            _par.tqdm = _quiet_tqdm

    # -- scratch ---------------------------------------------------------------------
    def cleanup(self):
        shutil.rmtree(self.work, ignore_errors=True)
        try:
            (WORK_DIR / self.pid).rmdir()
        except OSError:
            pass

    # -- evaluation ------------------------------------------------------------------
    def evaluate(self, cases, check=None, *, chunk=None, timeout=60, procs=None, keep=False, record=True, nestable=False):
        """Evaluate every case (a list of JSON-able dicts) with the real code, in parallel.

        Returns the list of outcomes aligned with `cases` when keep=True.
        """
        global _CHECK, _CASE_TIMEOUT
        check = check or self.module.check
        cases = list(cases)
        n = len(cases)
        if n == 0:
            return []
        _CHECK = check
        _CASE_TIMEOUT = timeout
        procs = procs or NPROC
        # rotate shard order by seed: verdicts are order-independent, this only changes
        # which worker sees which case
        order = list(range(n))
        rot = self.seed % n
        order = order[rot:] + order[:rot]
        if chunk is None:
            chunk = max(1, min(200, n // (procs * 8) or 1))
        chunks = [
            [(i, cases[i]) for i in order[k : k + chunk]] for k in range(0, n, chunk)
        ]
        results: list = [None] * n
        if procs == 1 or n < 4:
            _worker_init()
            for ch in chunks:
                for idx, res in _run_chunk(ch):
                    results[idx] = res
        else:
            ctx = _NoDaemonContext() if nestable else mp.get_context("fork")
            with ctx.Pool(procs, initializer=_worker_init) as pool:
                for part in pool.imap_unordered(_run_chunk, chunks):
                    for idx, res in part:
                        results[idx] = res
        for i, res in enumerate(results):
            if res.get("harness"):
                raise HarnessError(f"check() raised on case {canon_json(cases[i])[:600]}\n{res['detail']}")
            if record:
                self.record(cases[i], res)
        return results if keep else None

    def record(self, case, res):
        if res.get("harness"):
            raise HarnessError(f"check() raised on case {canon_json(case)[:600]}\n{res['detail']}")
        self.evaluations += 1
        self.classes[res["cls"]] = self.classes.get(res["cls"], 0) + 1
        if res.get("nontrivial"):
            self.nontrivial_keys.add(res.get("key") or sha12(case))
        for k, v in (res.get("extra") or {}).items():
            self.extra[k] = self.extra.get(k, 0) + v
        if not res["ok"]:
            self.failures.append((case, res))
        # a few written-out samples, spread over the enumeration
        if len(self.samples) < 3 or (
            len(self.samples) < 8 and self.evaluations % 997 == 0
        ):
            describe = getattr(self.module, "describe", None)
            if case.get("setup"):
                describe = None
            self.samples.append({"case": describe(case) if describe else case, "verdict": res["cls"]})

    def note(self, msg):
        self.notes.append(msg)
        print(f"[{self.pid}] {msg}", flush=True)

    def elapsed(self):
        return time.time() - self.t0


# --------------------------------------------------------------------------------------
# known findings
# --------------------------------------------------------------------------------------


def load_known(pid):
    if not KNOWN_FILE.exists():
        return []
    data = json.loads(KNOWN_FILE.read_text())
    return [e for e in data.get("findings", []) if e["property"] == pid and e["status"] == "open"]


def attribute(module, failures):
    """Split failures into (by_entry, unexplained).

    A failing case is attributed to an open entry only if the entry's predicate holds on the
    *input* and the observed symptom is one the entry records.
    """
    entries = load_known(module.ID)
    preds = getattr(module, "PREDICATES", {})
    by_entry: dict[str, list] = {e["id"]: [] for e in entries}
    unexplained = []
    for case, res in failures:
        hit = None
        for e in entries if not case.get("setup") else []:  # a failed setup belongs to no recorded finding
            pred = preds.get(e["id"])
            if pred is None:
                raise HarnessError(f"known finding {e['id']} has no predicate in {module.__name__}")
            try:
                match = bool(pred(case))
            except Exception as exc:  # predicate must be total
                raise HarnessError(f"predicate {e['id']} raised {exc!r} on {case}") from exc
            if match and res.get("symptom") in e["symptoms"]:
                hit = e["id"]
                break
        if hit is None:
            unexplained.append((case, res))
        else:
            by_entry[hit].append((case, res))
    return entries, by_entry, unexplained


# --------------------------------------------------------------------------------------
# replay artefacts
# --------------------------------------------------------------------------------------


def write_replay(pid, case, res):
    d = REPLAY_DIR / pid
    d.mkdir(parents=True, exist_ok=True)
    payload = {"property": pid, "case": case, "observed": res}
    p = d / f"{sha12(case)}.json"
    p.write_text(json.dumps(payload, indent=1, default=_json_default, sort_keys=True))
    return p


def confirm_in_subprocess(pid, path):
    """Re-execute a failing case from its replay file in a fresh interpreter."""
    env = dict(os.environ)
    env.setdefault("PYTHONHASHSEED", "0")
    proc = subprocess.run(
        [sys.executable, "-m", "mc.run", pid, "--replay", str(path), "--quiet"],
        cwd=ROOT,
        env=env,
        capture_output=True,
        text=True,
        timeout=600,
    )
    return proc.returncode, proc.stdout[-2000:] + proc.stderr[-2000:]


# --------------------------------------------------------------------------------------
# evidence
# --------------------------------------------------------------------------------------


def write_evidence(ctx: Context, violations: int, known_report: dict):
    module = ctx.module
    cov = {
        "evaluations": ctx.evaluations,
        "distinct_nontrivial": len(ctx.nontrivial_keys),
        "rule": module.RULE,
        "samples": ctx.samples[:8],
        "exhaustive": bool(ctx.exhaustive),
        "verdict_classes": dict(sorted(ctx.classes.items())),
        "known_findings": known_report,
        "notes": ctx.notes,
    }
    for k, v in ctx.extra.items():
        cov[k] = v
    cov.update(ctx.coverage_extra)
    ev = {
        "property_id": ctx.pid,
        "tier": ctx.tier,
        "seed": ctx.seed,
        "level": module.LEVEL,
        "coverage": cov,
        "assumptions": ctx.assumptions,
        "wall_s": round(ctx.elapsed(), 2),
        "violations": violations,
    }
    EVIDENCE_DIR.mkdir(exist_ok=True)
    text = json.dumps(ev, indent=1, default=_json_default)
    # validate before writing
    try:
        import jsonschema

        schema = json.loads(Path("/root/.vp/EVIDENCE.schema.json").read_text())
        jsonschema.validate(json.loads(text), schema)
    except FileNotFoundError:
        pass
    (EVIDENCE_DIR / f"{ctx.pid}.json").write_text(text)
    return ev
